; C02: unescape(prev)=unescape(cur) /\ noEND(prev) /\ noEND(cur) => prev = cur
(declare-sort Line 0)
(declare-const END Line) (declare-const ESC Line) (declare-const EMPTY Line)
(assert (distinct END ESC EMPTY))
(declare-const n1 Int) (declare-const s1 (Array Int Line))
(declare-const n2 Int) (declare-const s2 (Array Int Line))
(assert (>= n1 1)) (assert (>= n2 1))
(assert (forall ((i Int)) (=> (and (<= 0 i) (< i n1)) (not (= (select s1 i) END)))))
(assert (forall ((i Int)) (=> (and (<= 0 i) (< i n2)) (not (= (select s2 i) END)))))
(define-fun un ((l Line)) Line (ite (= l ESC) END l))
; unescaped texts equal
(assert (= n1 n2))
(assert (forall ((i Int)) (=> (and (<= 0 i) (< i n1)) (= (un (select s1 i)) (un (select s2 i))))))
; texts differ
(declare-const w Int)
(assert (and (<= 0 w) (< w n1) (not (= (select s1 w) (select s2 w)))))
(check-sat)
