; updateSnapshot: U_other  (forall id2 != id: lookup(F',id2) = lookup(F,id2)) from the loop's exact-content postcondition,
; under swf(F), noHdr(S), noEND(S).  Hand-written probe of the T-lines encoding.
(declare-sort Line 0)
(declare-const END Line) (declare-const ESC Line) (declare-const EMPTY Line)
(declare-fun isHdr (Line) Bool)
(assert (distinct END ESC EMPTY)) (assert (not (isHdr END))) (assert (not (isHdr EMPTY)))
(declare-const tid Line) (declare-const tid2 Line)
(assert (and (isHdr tid) (isHdr tid2) (not (= tid tid2))))
(declare-const N Int) (declare-const tok (Array Int Line))
(assert (>= N 1)) (assert (= (select tok (- N 1)) END))            ; wf
; swf: header-shaped tokens pairwise distinct, and an END between any two of them (witness function eb)
(declare-fun eb (Int Int) Int)
(assert (forall ((x Int) (y Int)) (=> (and (<= 0 x) (< x y) (< y N) (isHdr (select tok x)) (isHdr (select tok y)))
   (and (not (= (select tok x) (select tok y))) (< x (eb x y)) (< (eb x y) y) (= (select tok (eb x y)) END)))))
; tid found at p, first END after p at q
(declare-const p Int) (declare-const q Int)
(assert (and (<= 0 p) (< p q) (< q N) (= (select tok p) tid) (= (select tok q) END)))
(assert (forall ((k Int)) (=> (and (< p k) (< k q)) (not (= (select tok k) END)))))
; new body
(declare-const m Int) (declare-const S (Array Int Line)) (assert (>= m 1))
(assert (forall ((t Int)) (=> (and (<= 0 t) (< t m)) (and (not (= (select S t) END)) (not (isHdr (select S t)))))))
; exact content of F' (postcondition of the loop)
(declare-const N2 Int) (declare-const tok2 (Array Int Line))
(define-fun d () Int (- (+ p m 1) q))
(assert (= N2 (+ N d)))
(assert (forall ((w Int)) (=> (and (<= 0 w) (< w N2)) (= (select tok2 w)
   (ite (<= w p) (select tok w) (ite (<= w (+ p m)) (select S (- w p 1)) (ite (= w (+ p m 1)) END (select tok (- w d)))))))))
; lookup of tid2 in F (found at p2,q2) -- case found
(declare-const p2 Int) (declare-const q2 Int)
(assert (and (<= 0 p2) (< p2 q2) (< q2 N) (= (select tok p2) tid2) (= (select tok q2) END)))
(assert (forall ((k Int)) (=> (and (<= 0 k) (< k p2)) (not (= (select tok k) tid2)))))
(assert (forall ((k Int)) (=> (and (< p2 k) (< k q2)) (not (= (select tok k) END)))))
; claimed positions in F'
(define-fun sh ((k Int)) Int (ite (< k p) k (+ k d)))
(declare-const w Int)
(assert (not (and
   (= (select tok2 (sh p2)) tid2) (= (select tok2 (sh q2)) END) (< (sh p2) (sh q2)) (< (sh q2) N2)
   (= (- (sh q2) (sh p2)) (- q2 p2))
   (=> (and (<= 0 w) (< w (sh p2))) (not (= (select tok2 w) tid2)))
   (=> (and (< (sh p2) w) (< w (sh q2))) (and (not (= (select tok2 w) END)) (= (select tok2 w) (select tok (+ p2 (- w (sh p2))))))))))
(check-sat)
