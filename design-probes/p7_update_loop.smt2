; updateSnapshot: loop-body preservation of the two-phase invariant (both branches), pointwise + landmarks.
(declare-sort Line 0)
(declare-const END Line) (declare-const EMPTY Line) (assert (distinct END EMPTY))
(declare-const tid Line) (assert (distinct tid END EMPTY))
(declare-const N Int) (declare-const tok (Array Int Line))
(declare-const p Int) (declare-const q Int)
(assert (and (<= 0 p) (< p q) (< q N) (= (select tok p) tid) (= (select tok q) END)))
(assert (forall ((k Int)) (=> (and (<= 0 k) (< k N) (= (select tok k) tid)) (= k p))))        ; unique
(assert (forall ((k Int)) (=> (and (< p k) (< k q)) (not (= (select tok k) END)))))
(declare-const m Int) (declare-const S (Array Int Line)) (assert (>= m 1))
(define-fun d () Int (- (+ p m 1) q))
(define-fun target ((w Int)) Line
  (ite (<= w p) (select tok w) (ite (<= w (+ p m)) (select S (- w p 1)) (ite (= w (+ p m 1)) END (select tok (- w d))))))
(define-fun inv ((pos Int) (No Int) (otok (Array Int Line))) Bool
  (and (<= 0 pos) (<= pos N) (or (<= pos p) (> pos q))
       (=> (<= pos p) (and (= No pos) (forall ((w Int)) (=> (and (<= 0 w) (< w pos)) (= (select otok w) (select tok w))))))
       (=> (> pos q)  (and (= No (+ pos d)) (forall ((w Int)) (=> (and (<= 0 w) (< w No)) (= (select otok w) (target w))))))))
(declare-const pos Int) (declare-const No Int) (declare-const otok (Array Int Line))
(assert (inv pos No otok))
(assert (< pos N))                                   ; s.Scan() == true
(define-fun pos1 () Int (+ pos 1))
(define-fun b () Line (select tok pos))
(define-fun otok1 () (Array Int Line) (store otok No b))
(define-fun No1 () Int (+ No 1))
(push) ; branch 1: b != tid -> continue
(assert (not (= b tid)))
(assert (not (inv pos1 No1 otok1)))
(check-sat)
(pop)
(push) ; branch 2: b == tid -> removeSnapshot; append S, END
(assert (= b tid))
(declare-const pos2 Int)
; removeSnapshot postcondition (first END at or after pos1, consumed)
(assert (or (and (<= pos1 (- pos2 1)) (< (- pos2 1) N) (= (select tok (- pos2 1)) END)
                 (forall ((k Int)) (=> (and (<= pos1 k) (< k (- pos2 1))) (not (= (select tok k) END)))))
            (and (= pos2 N) (forall ((k Int)) (=> (and (<= pos1 k) (< k N)) (not (= (select tok k) END)))))))
(declare-const otok2 (Array Int Line))
(define-fun No2 () Int (+ No1 m 1))
(assert (forall ((w Int)) (=> (and (<= 0 w) (< w No2)) (= (select otok2 w)
   (ite (< w No1) (select otok1 w) (ite (< w (+ No1 m)) (select S (- w No1)) END))))))
(assert (= (select otok2 (+ No1 m)) END))            ; landmark
(assert (not (inv pos2 No2 otok2)))
(check-sat)
(pop)
