#!/bin/sh
# Design probes: hand-written VCs in the encodings of DESIGN.md §3.3, run on the installed solvers.
# Not framework code; kept as evidence for the encoding decisions.
cd "$(dirname "$0")"
for f in p*.smt2; do for s in z3-new z3; do
  printf '%-28s %-7s ' "$f" "$s"; ( /usr/bin/time -f '%es' timeout 60 $s "$f" 2>&1 | tr '\n' ' ' ); echo
done; done
