package snaps

// Bounded validation of the ASSUMED contracts of tidwall/pretty, tidwall/gjson, tidwall/sjson and encoding/json
// that the proofs of C14, C15, C16 rest on. This is not a proof: it enumerates small documents (bound stated in
// the SUMMARY line) and evaluates the assumed postconditions on the real libraries through the real go-snaps
// functions (takeJSONSnapshot, validateJSON, match.Any/Type). Output protocol: "CASE <class>/<id> ok|FAIL detail".

import (
	"bytes"
	"encoding/json"
	"fmt"
	"os"
	"reflect"
	"sort"
	"strings"
	"testing"

	"github.com/gkampitakis/go-snaps/match"
	"github.com/tidwall/gjson"
)

type vjDoc struct {
	compact string   // canonical compact text
	paths   []string // gjson paths of every member/element (nested included)
	dupKeys bool
}

// genDocs enumerates JSON values with at most n nodes over a small alphabet.
func vjGen(n int, depth int) []string {
	scalars := []string{`1`, `-0`, `1e2`, `12345678901234567890`, `"s"`, `"a\"b"`, `"é"`, `"é"`, `true`, `null`, `""`}
	if n <= 0 {
		return nil
	}
	out := append([]string{}, scalars...)
	if depth == 0 || n < 2 {
		out = append(out, `{}`, `[]`)
		return out
	}
	out = append(out, `{}`, `[]`)
	keys := []string{`"a"`, `"b"`, `"a.b"`, `"k*"`, `"é"`, `""`}
	subs := vjGen(n-1, depth-1)
	if len(subs) > 9 {
		// keep the enumeration small: a spread of sub-values
		pick := []string{}
		for i := 0; i < len(subs); i += len(subs)/9 + 1 {
			pick = append(pick, subs[i])
		}
		subs = pick
	}
	for _, s := range subs {
		out = append(out, `[`+s+`]`)
		for _, k := range keys[:3] {
			out = append(out, `{`+k+`:`+s+`}`)
		}
	}
	if n >= 3 {
		for i, s1 := range subs {
			for j, s2 := range subs {
				if (i+j)%3 != 0 {
					continue
				}
				out = append(out, `[`+s1+`,`+s2+`]`)
				out = append(out, `{"b":`+s1+`,"a":`+s2+`}`)
				out = append(out, `{"k*":`+s1+`,"a.b":`+s2+`}`)
			}
		}
	}
	return out
}

func vjSpaced(s string) string {
	var b strings.Builder
	inStr := false
	for i := 0; i < len(s); i++ {
		c := s[i]
		if c == '"' && (i == 0 || s[i-1] != '\\') {
			inStr = !inStr
		}
		if !inStr && (c == ':' || c == ',' || c == '{' || c == '[') {
			b.WriteByte(c)
			b.WriteString(" \n\t")
			continue
		}
		if !inStr && (c == '}' || c == ']') {
			b.WriteString(" \n")
		}
		b.WriteByte(c)
	}
	return b.String()
}

func vjDecode(s string) (any, error) {
	d := json.NewDecoder(strings.NewReader(s))
	d.UseNumber()
	var v any
	err := d.Decode(&v)
	return v, err
}

// reorder object members (reverse order) at every level, via decode/encode of an ordered representation
func vjReverseMembers(s string) string {
	r := gjson.Parse(s)
	switch {
	case r.IsObject():
		var ks, vs []string
		r.ForEach(func(k, v gjson.Result) bool { ks = append(ks, k.Raw); vs = append(vs, vjReverseMembers(v.Raw)); return true })
		var parts []string
		for i := len(ks) - 1; i >= 0; i-- {
			parts = append(parts, ks[i]+":"+vs[i])
		}
		return "{" + strings.Join(parts, ",") + "}"
	case r.IsArray():
		var vs []string
		r.ForEach(func(_, v gjson.Result) bool { vs = append(vs, vjReverseMembers(v.Raw)); return true })
		return "[" + strings.Join(vs, ",") + "]"
	}
	return s
}

func vjEscapePath(k string) string {
	var b strings.Builder
	for _, c := range k {
		if strings.ContainsRune(`.*?|#@\`, c) {
			b.WriteByte('\\')
		}
		b.WriteRune(c)
	}
	return b.String()
}

// all paths (members, elements, nested) with their decoded values
func vjPaths(prefix string, r gjson.Result, out map[string]string) {
	if r.IsObject() {
		r.ForEach(func(k, v gjson.Result) bool {
			p := vjEscapePath(k.String())
			if prefix != "" {
				p = prefix + "." + p
			}
			if k.String() != "" {
				out[p] = v.Raw
				vjPaths(p, v, out)
			}
			return true
		})
	} else if r.IsArray() {
		i := 0
		r.ForEach(func(_, v gjson.Result) bool {
			p := fmt.Sprint(i)
			if prefix != "" {
				p = prefix + "." + p
			}
			out[p] = v.Raw
			vjPaths(p, v, out)
			i++
			return true
		})
	}
}

func TestVerifBoundedJSON(t *testing.T) {
	n := 3
	if os.Getenv("VERIF_TIER") == "thorough" {
		n = 4
	}
	docs := vjGen(n, 2)
	seen := map[string]bool{}
	cfgs := []*Config{
		{},
		{json: &JSONConfig{Indent: "  ", SortKeys: true, Width: 80}},
		{json: &JSONConfig{Indent: "\t", SortKeys: false, Width: 0}},
	}
	cases, distinct := 0, 0
	report := func(class, id string, ok bool, detail string) {
		cases++
		if ok {
			fmt.Printf("CASE %s/%s ok\n", class, id)
		} else {
			fmt.Printf("CASE %s/%s FAIL %s\n", class, id, detail)
		}
	}
	for di, d := range docs {
		if seen[d] || !gjson.Valid(d) {
			continue
		}
		seen[d] = true
		distinct++
		id := fmt.Sprintf("d%d", di)
		want, err := vjDecode(d)
		if err != nil {
			continue
		}
		for ci, c := range cfgs {
			cid := fmt.Sprintf("%s.c%d", id, ci)
			snap := takeJSONSnapshot(c, []byte(d))
			// A1: value preserved
			got, err := vjDecode(snap)
			report("render_value", cid, err == nil && reflect.DeepEqual(got, want), fmt.Sprintf("doc %s rendered %q", d, snap))
			// A2: insignificant whitespace
			report("render_ws", cid, takeJSONSnapshot(c, []byte(vjSpaced(d))) == snap, "doc "+d)
			// A3: member order (only with sorting)
			if c.json == nil || c.json.SortKeys {
				report("render_order", cid, takeJSONSnapshot(c, []byte(vjReverseMembers(d))) == snap, "doc "+d)
			}
			// A4: no terminator line
			okLine := true
			for _, l := range strings.Split(snap, "\n") {
				if l == "---" {
					okLine = false
				}
			}
			report("render_noEND", cid, okLine, snap)
		}
		// A5: three input forms
		b1, e1 := validateJSON(d)
		b2, e2 := validateJSON([]byte(d))
		report("forms_text", id, e1 == nil && e2 == nil && bytes.Equal(b1, b2) && string(b1) == d, d)
		var gv any
		if _, isStr := gv.(string); json.Unmarshal([]byte(d), &gv) == nil && !isStr {
			if _, isStr2 := gv.(string); isStr2 {
				gv = nil // a Go string is taken as JSON text by design, not marshalled: not a "Go value" input form
			}
			if gv != nil || d == "null" {
				b3, e3 := validateJSON(gv)
				m, _ := json.Marshal(gv)
				report("forms_value", id, e3 == nil && bytes.Equal(b3, m), d)
			}
		}
		// path laws through the real matcher
		paths := map[string]string{}
		vjPaths("", gjson.Parse(d), paths)
		var pks []string
		for p := range paths {
			pks = append(pks, p)
		}
		sort.Strings(pks)
		for pi, p := range pks {
			for phi, ph := range []any{"<Any value>", "x", 7, nil, "a much longer placeholder than the value it replaces ......", "é", `q"q`} {
				pid := fmt.Sprintf("%s.p%d.h%d", id, pi, phi)
				in := []byte(d)
				out, errs := match.Any(p).Placeholder(ph).JSON(in)
				if len(errs) != 0 {
					report("set_error", pid, false, fmt.Sprintf("doc %s path %s: %v", d, p, errs))
					continue
				}
				o := string(out)
				phb, _ := json.Marshal(ph)
				okValid := gjson.Valid(o)
				gotv, _ := vjDecode(gjson.Get(o, p).Raw)
				wantv, _ := vjDecode(string(phb))
				report("set_get", pid, okValid && reflect.DeepEqual(gotv, wantv), fmt.Sprintf("doc %s path %s -> %s", d, p, o))
				same := true
				detail := ""
				for _, q := range pks {
					if q == p || strings.HasPrefix(q, p+".") || strings.HasPrefix(p, q+".") {
						continue
					}
					a, _ := vjDecode(paths[q])
					b, _ := vjDecode(gjson.Get(o, q).Raw)
					if !reflect.DeepEqual(a, b) {
						same = false
						detail = fmt.Sprintf("doc %s set %s changed %s: %s -> %s", d, p, q, paths[q], gjson.Get(o, q).Raw)
					}
				}
				report("set_others", pid, same, detail)
			}
		}
		// C16: two inputs that differ only at a masked path store the identical snapshot; differing at an unmasked
		// path they store different snapshots (through the real validate -> matchers -> pretty pipeline)
		for pi, p := range pks {
			if pi > 3 {
				break
			}
			alt, _ := match.Any(p).Placeholder("ALT-VALUE").JSON([]byte(d))
			j1, _ := validateJSON(d)
			j2, _ := validateJSON(string(alt))
			m1, e1 := applyJSONMatchers(j1, match.Any(p))
			m2, e2 := applyJSONMatchers(j2, match.Any(p))
			report("masked_equal", fmt.Sprintf("%s.p%d", id, pi), len(e1) == 0 && len(e2) == 0 && takeJSONSnapshot(&Config{}, m1) == takeJSONSnapshot(&Config{}, m2), fmt.Sprintf("doc %s vs %s masked %s", d, alt, p))
			for qi, q := range pks {
				if q == p || strings.HasPrefix(q, p+".") || strings.HasPrefix(p, q+".") || qi > 4 {
					continue
				}
				j3, _ := validateJSON(d)
				j4, _ := validateJSON(string(alt))
				m3, _ := applyJSONMatchers(j3, match.Any(q))
				m4, _ := applyJSONMatchers(j4, match.Any(q))
				report("unmasked_differs", fmt.Sprintf("%s.p%d.q%d", id, pi, qi), takeJSONSnapshot(&Config{}, m3) != takeJSONSnapshot(&Config{}, m4), fmt.Sprintf("doc %s vs %s masked %s", d, alt, q))
			}
		}
		// a missing path is reported, and ignored with ErrOnMissingPath(false)
		_, errs := match.Any("no.such.path").JSON([]byte(d))
		out2, errs2 := match.Any("no.such.path").ErrOnMissingPath(false).JSON([]byte(d))
		report("missing_path", id, len(errs) == 1 && len(errs2) == 0 && string(out2) == d, d)
	}
	// objects with duplicate member names (outside RFC 8259's interoperable subset): recorded as known finding K10
	{
		d := `{"a":2,"a":1}`
		snap := takeJSONSnapshot(&Config{}, []byte(d))
		var vin, vout map[string]any
		json.Unmarshal([]byte(d), &vin)
		json.Unmarshal([]byte(snap), &vout)
		report("dupkeys", "d0", reflect.DeepEqual(vin, vout), fmt.Sprintf("doc %s rendered %q", d, snap))
	}
	fmt.Printf("SUMMARY cases=%d distinct=%d bound=documents with at most %d nodes over 11 scalars and 6 keys, 3 format configs, 7 placeholders (two of them need JSON escaping: F7)\n", cases, distinct, n)
}
