package snaps

// Bounded stand-in for the `-run` clause of C08 (no contract-level oracle exists for regular expressions and the test
// runner's filter). NOT a proof: it enumerates a fixed tree of tests, a fixed list of -run patterns and three ordinals,
// and compares go-snaps' decision with the REAL filter of package testing (the tests of the tree are run in-process
// through testing.RunTests with -test.run set to the pattern; each test body records its name).
//
// Clause checked: an entry (or file) of a test that the pattern did NOT select must be protected:
// testSkipped(id, pattern) / isFileSkipped(dir, file, pattern) must be true. (Entries of tests that did run and are
// protected anyway are counted as "overprotected" in the SUMMARY: harmless for C08.)
// Output protocol: "CASE <class>/<id> ok|FAIL detail", "SUMMARY ...".

import (
	"flag"
	"fmt"
	"os"
	"path/filepath"
	"regexp"
	"sort"
	"strings"
	"sync"
	"testing"
)

var vrfRan = struct {
	sync.Mutex
	names map[string]bool
}{names: map[string]bool{}}

func vrfRec(t *testing.T) { vrfRan.Lock(); vrfRan.names[t.Name()] = true; vrfRan.Unlock() }

// the tree: name -> children (a child "B" of TestA has the full name TestA/B)
var vrfTree = map[string][]string{
	"TestA":      {"B", "AB", "x y", "2"},
	"TestA/B":    {"1"},
	"TestAB":     {"B"},
	"TestAB/B":   {"1"},
	"TestB1":     {"2"},
	"Test2":      nil,
	"TestFoo":    {"bar"},
	"TestFoo/bar": {"B"},
}
var vrfTop = []string{"TestA", "TestAB", "TestB1", "Test2", "TestFoo"}

func vrfBody(full string) func(t *testing.T) {
	return func(t *testing.T) {
		vrfRec(t)
		for _, c := range vrfTree[full] {
			c := c
			t.Run(c, vrfBody(full+"/"+strings.ReplaceAll(c, " ", "_")))
		}
	}
}

func vrfAllNames() []string {
	var out []string
	var walk func(full string)
	walk = func(full string) {
		out = append(out, full)
		for _, c := range vrfTree[full] {
			walk(full + "/" + strings.ReplaceAll(c, " ", "_"))
		}
	}
	for _, t := range vrfTop {
		walk(t)
	}
	sort.Strings(out)
	return out
}

// vrfOracle: the names that run under -run pattern, by the real matcher of package testing.
func vrfOracle(pattern string) map[string]bool {
	vrfRan.Lock()
	vrfRan.names = map[string]bool{}
	vrfRan.Unlock()
	old := flag.Lookup("test.run").Value.String()
	oldV := flag.Lookup("test.v").Value.String()
	flag.Set("test.run", pattern)
	flag.Set("test.v", "false")
	defer flag.Set("test.run", old)
	defer flag.Set("test.v", oldV)
	var tests []testing.InternalTest
	for _, n := range vrfTop {
		tests = append(tests, testing.InternalTest{Name: n, F: vrfBody(n)})
	}
	// silence the runner's own output (PASS / warnings)
	so := os.Stdout
	if null, err := os.OpenFile(os.DevNull, os.O_WRONLY, 0); err == nil {
		os.Stdout = null
		defer func() { os.Stdout = so; null.Close() }()
	}
	testing.RunTests(regexp.MatchString, tests)
	out := map[string]bool{}
	vrfRan.Lock()
	for n := range vrfRan.names {
		out[n] = true
	}
	vrfRan.Unlock()
	return out
}

func vrfMangle(s string) string {
	r := strings.NewReplacer(" ", "_", "/", ".", "|", "!", "^", "(", "$", ")")
	return r.Replace(s)
}

func TestVerifBoundedRunFilter(t *testing.T) {
	type pat struct{ class, p string }
	pats := []pat{
		{"run_plain", "TestA"}, {"run_plain", "^TestA$"}, {"run_plain", "TestAB"}, {"run_plain", "TestA|Test2"}, {"run_plain", "Foo"},
		{"run_plain", "^Test2$"}, {"run_plain", "TestB"}, {"run_plain", "Test"}, {"run_plain", "TestZed"}, {"run_plain", "^TestF"},
		{"run_digits", "2"}, {"run_digits", "1"}, {"run_digits", "10"}, {"run_digits", "1$"}, {"run_digits", "- 1"},
		{"run_sublevel", "B"}, {"run_sublevel", "AB"}, {"run_sublevel", "bar"}, {"run_sublevel", "x_y"},
		{"run_multilevel", "TestA/B"}, {"run_multilevel", "TestA/AB"}, {"run_multilevel", "A/B/1"}, {"run_multilevel", "Test/1"},
		{"run_multilevel", "TestAB/B"}, {"run_multilevel", "/B"}, {"run_multilevel", "TestFoo/bar/B"}, {"run_multilevel", "TestA$/B"},
	}
	if os.Getenv("VERIF_TIER") == "thorough" {
		for _, a := range []string{"A", "B", "Foo", "Test", "2", "bar", "^TestA", "AB$"} {
			for _, b := range []string{"", "/B", "/1", "/bar", "|Test2"} {
				pats = append(pats, pat{"run_generated", a + b})
			}
		}
	}
	savedSkipped := skippedTests.values
	skippedTests.values = nil
	defer func() { skippedTests.values = savedSkipped }()

	names := vrfAllNames()
	cases, over := 0, 0
	report := func(class, id string, ok bool, detail string) {
		cases++
		if ok {
			fmt.Printf("CASE %s/%s ok\n", class, id)
		} else {
			fmt.Printf("CASE %s/%s FAIL %s\n", class, id, detail)
		}
	}
	for _, pt := range pats {
		ran := vrfOracle(pt.p)
		for _, n := range names {
			for _, k := range []int{1, 2, 10} {
				id := fmt.Sprintf("%s - %d", n, k)
				protected := testSkipped(id, pt.p)
				if ran[n] {
					if protected {
						over++
					}
					continue
				}
				// classify a failure by its cause: the pattern matches the id only through the " - k" suffix (ordinal), or it
				// matches the slash-joined name although the runner's per-level filter does not select the test (level)
				class := pt.class
				if !protected {
					if m, _ := regexp.MatchString(pt.p, n); !m {
						class = "run_ordinal"
					} else {
						class = "run_level"
					}
				}
				report(class, vrfMangle(pt.p)+"."+vrfMangle(n)+fmt.Sprintf(".%d", k), protected,
					fmt.Sprintf("-run %q does not select %s (real test runner), but testSkipped(%q) = false: the entry is treated as obsolete", pt.p, n, id))
			}
		}
	}
	// the skip list alone (no -run): exactly the recorded names and their descendants are protected
	for _, sk := range []string{"TestA", "TestA/B", "TestFoo/bar"} {
		skippedTests.values = []string{sk}
		for _, n := range names {
			want := n == sk || strings.HasPrefix(n, sk+"/")
			got := testSkipped(n+" - 1", "")
			report("skip_list", vrfMangle(sk)+"."+vrfMangle(n), got == want, fmt.Sprintf("skipped %s: testSkipped(%q) = %v, want %v", sk, n+" - 1", got, want))
		}
	}
	skippedTests.values = nil

	// file level: a test file x_test.go holding the top-level tests of the tree, and snapshot files of several shapes
	dir := t.TempDir()
	var src strings.Builder
	src.WriteString("package x\n\nimport \"testing\"\n\n")
	for _, n := range vrfTop {
		fmt.Fprintf(&src, "func %s(t *testing.T) {}\n", n)
	}
	src.WriteString("func helper() {}\n")
	if err := os.WriteFile(filepath.Join(dir, "x_test.go"), []byte(src.String()), 0o644); err != nil {
		t.Fatal(err)
	}
	snapDir := filepath.Join(dir, "__snapshots__")
	files := []struct{ class, name string }{
		{"file_default", "x_test.snap"},
		{"file_custom_name", "custom.snap"},
		{"file_ext", "x_test.snap.json"},
		{"file_standalone", "TestA_1.snap"},
		{"file_standalone", "TestA_B_1.snap.json"},
	}
	for _, p := range []string{"TestZed", "^Nothing$", "TestA", "B", "TestA/B", "2"} {
		ran := vrfOracle(p)
		any := false
		for _, n := range vrfTop {
			if ran[n] {
				any = true
			}
		}
		for _, f := range files {
			protected := isFileSkipped(snapDir, f.name, p)
			if any {
				if protected {
					over++
				}
				continue
			}
			report(f.class, vrfMangle(p)+"."+vrfMangle(f.name), protected,
				fmt.Sprintf("-run %q selects no test of x_test.go, but isFileSkipped(%q) = false: the file is treated as obsolete", p, f.name))
		}
	}
	fmt.Printf("SUMMARY cases=%d overprotected=%d bound=%d names x %d patterns x ordinals {1,2,10}; 3 skip lists; 5 file shapes x 6 patterns; oracle = testing.RunTests with -test.run\n", cases, over, len(names), len(pats))
}
