package snaps

// Bounded validation of the ASSUMED contracts of goccy/go-yaml (path lookup/replacement through the real matchers,
// verbatim storage) and of diffmatchpatch (a single Equal diff means identical texts, for valid UTF-8), plus the
// strictness assumptions on maruel/natural. Not a proof; the bound is stated in the SUMMARY line.

import (
	"fmt"
	"os"
	"strings"
	"testing"
	"unicode/utf8"

	"github.com/gkampitakis/go-snaps/match"
	"github.com/goccy/go-yaml"
	"github.com/maruel/natural"
)

func TestVerifBoundedYAMLDMP(t *testing.T) {
	cases := 0
	report := func(class, id string, ok bool, detail string) {
		cases++
		if ok {
			fmt.Printf("CASE %s/%s ok\n", class, id)
		} else {
			fmt.Printf("CASE %s/%s FAIL %s\n", class, id, detail)
		}
	}
	// ---- YAML: documents and paths -------------------------------------------------------------------
	type yd struct {
		doc   string
		paths []string
	}
	docs := []yd{
		{"a: 1\nb: two\n", []string{"$.a", "$.b"}},
		{"a: 1\nb: two", []string{"$.a", "$.b"}},
		{"# comment\nuser:\n  name: x\n  age: 10\nlist:\n  - 1\n  - k: v\n", []string{"$.user.name", "$.user.age", "$.list[0]", "$.list[1].k"}},
		{"---\na: 1\n", []string{"$.a"}},
		{"s: |\n  line1\n  ---\n  line3\nt: end\n", []string{"$.t"}},
		{"z: 1\na: 2\nm: 3\n", []string{"$.z", "$.a", "$.m"}},
		{"k: [1, 2, 3]\nq: {x: 1}\n", []string{"$.k[1]", "$.q.x"}},
	}
	for di, d := range docs {
		id := fmt.Sprintf("y%d", di)
		// verbatim: validateYAML returns the input bytes themselves
		b, err := validateYAML(d.doc)
		report("yaml_verbatim", id, err == nil && string(b) == d.doc, d.doc)
		b2, err2 := validateYAML([]byte(d.doc))
		report("yaml_verbatim_bytes", id, err2 == nil && string(b2) == d.doc, d.doc)
		// no matcher: identity
		out0, errs0 := applyYAMLMatchers([]byte(d.doc))
		report("yaml_nomatcher", id, len(errs0) == 0 && string(out0) == d.doc, d.doc)
		var before map[string]any
		yaml.Unmarshal([]byte(d.doc), &before)
		for pi, p := range d.paths {
			pid := fmt.Sprintf("%s.p%d", id, pi)
			in := []byte(d.doc)
			out, errs := match.Any(p).YAML(in)
			report("yaml_caller_bytes", pid, string(in) == d.doc, "input modified")
			if len(errs) != 0 {
				report("yaml_set", pid, false, fmt.Sprintf("%s %s: %v", d.doc, p, errs))
				continue
			}
			// the value at the path is the placeholder
			path, _ := yaml.PathString(p)
			var got any
			rerr := path.Read(strings.NewReader(string(out)), &got)
			report("yaml_set_get", pid, rerr == nil && fmt.Sprint(got) == "<Any value>", fmt.Sprintf("%q -> %q", d.doc, out))
			// the other paths keep their values
			same := true
			for qi, q := range d.paths {
				if qi == pi || strings.HasPrefix(q, p) || strings.HasPrefix(p, q) {
					continue
				}
				qp, _ := yaml.PathString(q)
				var a, bb any
				qp.Read(strings.NewReader(d.doc), &a)
				qp.Read(strings.NewReader(string(out)), &bb)
				if fmt.Sprint(a) != fmt.Sprint(bb) {
					same = false
				}
			}
			report("yaml_set_others", pid, same, fmt.Sprintf("%q -> %q", d.doc, out))
			// final newline kept iff present
			report("yaml_final_newline", pid, strings.HasSuffix(string(out), "\n") == strings.HasSuffix(d.doc, "\n"), fmt.Sprintf("%q -> %q", d.doc, out))
		}
		_, errsM := match.Any("$.no.such").YAML([]byte(d.doc))
		outM, errsM2 := match.Any("$.no.such").ErrOnMissingPath(false).YAML([]byte(d.doc))
		report("yaml_missing", id, len(errsM) == 1 && len(errsM2) == 0 && len(outM) > 0, d.doc)
	}
	// ---- diffmatchpatch: single Equal diff implies identical text (valid UTF-8) -----------------------------
	alpha := []string{"a", "b", "\n", "é", " "}
	maxLen := 3
	if os.Getenv("VERIF_TIER") == "thorough" {
		maxLen = 4
	}
	var words []string
	var gen func(prefix string, n int)
	gen = func(prefix string, n int) {
		words = append(words, prefix)
		if n == 0 {
			return
		}
		for _, c := range alpha {
			gen(prefix+c, n-1)
		}
	}
	gen("", maxLen)
	bad := 0
	pairs := 0
	for _, x := range words {
		for _, y := range words {
			if !utf8.ValidString(x) || !utf8.ValidString(y) {
				continue
			}
			pairs++
			diffs := dmp.DiffCleanupSemantic(dmp.DiffMain(x, y, false))
			single := len(diffs) == 1 && diffs[0].Type == diffEqual
			if single && x != y {
				bad++
				report("dmp_equal", fmt.Sprintf("%q-%q", x, y), false, "reported equal")
			}
			if x != y && x != "" && y != "" {
				// what singlelineDiff needs: a non-empty rendering for different texts
				if s, _, _ := singlelineDiff(x, y); s == "" {
					bad++
					report("dmp_nonempty", fmt.Sprintf("%q-%q", x, y), false, "empty inline diff for different texts")
				}
			}
		}
	}
	report("dmp_equal", "all", bad == 0, fmt.Sprintf("%d bad pairs", bad))
	// ---- natural.Less: irreflexive and asymmetric on sampled ids ----------------------------------------
	ids := []string{"TestA - 1", "TestA - 2", "TestA - 10", "TestB - 1", "TestA/sub - 1", "TestA/sub - 11", "Test1 - 1", "Test01 - 1", "TestA1 - 1", "TestA01 - 1"}
	okNat := true
	detail := ""
	for _, a := range ids {
		if natural.Less(a, a) {
			okNat = false
			detail = "reflexive on " + a
		}
		for _, b := range ids {
			if natural.Less(a, b) && natural.Less(b, a) {
				okNat = false
				detail = "symmetric on " + a + "," + b
			}
		}
	}
	report("natural_strict", "ids", okNat, detail)
	fmt.Printf("SUMMARY cases=%d distinct=%d bound=%d YAML documents with their paths; all pairs of strings over {a,b,newline,e-acute,space} up to length %d (%d pairs); %d sample ids\n", cases, len(docs)+pairs, len(docs), maxLen, pairs, len(ids))
}
