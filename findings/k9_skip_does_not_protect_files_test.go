package snaps

// Known finding K9 (C08): a test that called snaps.Skip and owns a standalone snapshot file: the file is reported
// obsolete (and removed in clean mode). FAILS on the real code.

import (
	"os"
	"path/filepath"
	"testing"
)

func TestVerifK9SkipDoesNotProtectFiles(t *testing.T) {
	dir := t.TempDir()
	owned := filepath.Join(dir, "TestSkipped_1.snap")
	other := filepath.Join(dir, "other_test.snap")
	os.WriteFile(owned, []byte("v"), 0o644)
	os.WriteFile(other, []byte("\n[TestOther - 1]\nv\n---\n"), 0o644)
	saved := skippedTests.values
	skippedTests.values = []string{"TestSkipped"}
	defer func() { skippedTests.values = saved }()
	registry := map[string]map[string]int{other: {"TestOther": 1}}
	obsolete, _ := examineFiles(registry, set{}, "", false)
	for _, p := range obsolete {
		if p == owned {
			t.Errorf("%s belongs to a test that called snaps.Skip but is reported obsolete", filepath.Base(p))
		}
	}
}
