package snaps

// Known finding K1 (C02, C18): escapeEndChars maps a value line `---` and a value line `/-/-/-/` to the same
// stored text, so one passes against the other. This demonstration FAILS on the real code (that is the finding).

import "testing"

type verifK1T struct {
	*testing.T
	name   string
	errors int
	ends   []func()
}

func (v *verifK1T) Name() string     { return v.name }
func (v *verifK1T) Error(...any)     { v.errors++ }
func (v *verifK1T) Log(...any)       {}
func (v *verifK1T) Cleanup(f func()) { v.ends = append(v.ends, f) }
func (v *verifK1T) finish() {
	for _, f := range v.ends {
		f()
	}
	v.ends = nil
}

func TestVerifK1EscapeConflation(t *testing.T) {
	saved := isCI
	isCI = false
	defer func() { isCI = saved }()
	c := WithConfig(Dir(t.TempDir()), Filename("k1"), Update(false))
	create := WithConfig(Dir(c.snapsDir), Filename("k1"))
	r := &verifK1T{T: t, name: "TestK1"}
	create.MatchSnapshot(r, "---")
	r.finish()
	if r.errors != 0 {
		t.Fatalf("recording failed")
	}
	r2 := &verifK1T{T: t, name: "TestK1"}
	c.MatchSnapshot(r2, "/-/-/-/")
	r2.finish()
	if r2.errors != 1 {
		t.Errorf("a different value (%q instead of %q) passed against the snapshot: %d errors reported", "/-/-/-/", "---", r2.errors)
	}
}
