package snaps

// Demonstration for finding F2 (property C15): MatchJSON given a []byte returned that very slice from validateJSON;
// the built-in matchers rewrite the document in place (sjson ReplaceInPlace), so the caller's bytes were corrupted.
// Fails on the unfixed tree, passes after the fix.

import (
	"testing"

	"github.com/gkampitakis/go-snaps/match"
)

type verifF2T struct {
	*testing.T
	name string
}

func (v verifF2T) Name() string     { return v.name }
func (v verifF2T) Error(...any)     {}
func (v verifF2T) Log(...any)       {}
func (v verifF2T) Cleanup(f func()) { v.T.Cleanup(f) }

func TestVerifF2CallerBytesModified(t *testing.T) {
	saved := isCI
	isCI = false
	defer func() { isCI = saved }()
	c := WithConfig(Dir(t.TempDir()), Filename("f2"))
	orig := `{"a":"0123456789012345678901234567890123456789","b":2}`
	in := []byte(orig)
	c.MatchJSON(verifF2T{T: t, name: "TestVerifF2"}, in, match.Any("a"))
	if string(in) != orig {
		t.Errorf("the caller's []byte was modified by MatchJSON:\n have %s\n want %s", in, orig)
	}
}
