package snaps

// Known finding K5 (C07, C10): an entry whose id does not start with "Test" (fuzz targets, benchmarks, any testingT)
// disappears when Clean rewrites the file, although it was matched in this run. FAILS on the real code.

import (
	"os"
	"path/filepath"
	"strings"
	"testing"
)

func TestVerifK5NonTestIDsDropped(t *testing.T) {
	path := filepath.Join(t.TempDir(), "k5.snap")
	content := "\n[TestB - 1]\nb\n---\n\n[FuzzX - 1]\nf\n---\n\n[TestA - 1]\na\n---\n"
	os.WriteFile(path, []byte(content), 0o644)
	registry := map[string]map[string]int{path: {"TestA": 1, "TestB": 1, "FuzzX": 1}}
	if _, err := examineSnaps(registry, []string{path}, "", 1, false, true); err != nil {
		t.Fatal(err)
	}
	got, _ := os.ReadFile(path)
	if !strings.Contains(string(got), "[FuzzX - 1]\nf\n---\n") {
		t.Errorf("the entry [FuzzX - 1], addressed in this run, is gone after sorting:\n%s", got)
	}
}
