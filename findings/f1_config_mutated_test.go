package snaps

// Demonstration for finding F1 (properties C12, C11): (*Config).MatchStandaloneJSON wrote c.extension = ".json"
// into the caller's Config, so a later MatchSnapshot through the same Config stored its snapshot in
// <name>.snap.json instead of <name>.snap. Fails on the unfixed tree, passes after the fix.

import (
	"os"
	"path/filepath"
	"testing"
)

type verifF1T struct {
	*testing.T
	name string
}

func (v verifF1T) Name() string     { return v.name }
func (v verifF1T) Error(...any)     {}
func (v verifF1T) Log(...any)       {}
func (v verifF1T) Cleanup(f func()) { v.T.Cleanup(f) }

func TestVerifF1ConfigMutated(t *testing.T) {
	dir := t.TempDir()
	c := WithConfig(Dir(dir), Filename("f"), Update(true))
	ft := verifF1T{T: t, name: "TestVerifF1"}
	c.MatchStandaloneJSON(ft, `{"a":1}`)
	if c.extension != "" {
		t.Errorf("Config was modified by MatchStandaloneJSON: extension = %q", c.extension)
	}
	c.MatchSnapshot(ft, "x")
	if _, err := os.Stat(filepath.Join(dir, "f.snap")); err != nil {
		entries, _ := os.ReadDir(dir)
		names := []string{}
		for _, e := range entries {
			names = append(names, e.Name())
		}
		t.Errorf("MatchSnapshot through the same Config did not write f.snap; directory holds %v", names)
	}
}
