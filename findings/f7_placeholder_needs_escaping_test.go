package match

// Demonstration for finding F7 (properties C16, C15): the built-in JSON matchers call sjson with ReplaceInPlace.
// When the replacement is a string that needs JSON escaping (a quote, a backslash, a control character or any
// non-ASCII byte) and fits into the slot of the old value, sjson returns the document UNCHANGED and reports no error:
// the covered value is not masked, so it still influences the snapshot. Fails on the unfixed tree, passes after the fix.

import (
	"strings"
	"testing"

	"github.com/tidwall/gjson"
)

func TestVerifF7PlaceholderNeedsEscaping(t *testing.T) {
	for _, ph := range []string{"‹any›", `say "x"`, `a\b`, "tab\there"} {
		doc := []byte(`{"id":"` + strings.Repeat("a", 40) + `","n":1}`)
		out, errs := Any("id").Placeholder(ph).JSON(doc)
		if len(errs) != 0 {
			t.Fatalf("placeholder %q: unexpected errors %v", ph, errs)
		}
		if got := gjson.GetBytes(out, "id").String(); got != ph {
			t.Errorf("placeholder %q: value at the covered path is %q after the matcher ran (not masked)", ph, got)
		}
	}
	// Custom matcher returning such a string
	doc := []byte(`{"id":"` + strings.Repeat("a", 40) + `","n":1}`)
	out, errs := Custom("id", func(any) (any, error) { return "ünïcode", nil }).JSON(doc)
	if len(errs) != 0 {
		t.Fatalf("custom: unexpected errors %v", errs)
	}
	if got := gjson.GetBytes(out, "id").String(); got != "ünïcode" {
		t.Errorf("custom: value at the covered path is %q after the matcher ran (not replaced)", got)
	}
}
