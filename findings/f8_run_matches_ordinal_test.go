package snaps

// Demonstration for finding F8 (property C08): the -run pattern was matched against the whole snapshot id, including the
// " - <ordinal>" suffix. `go test -run 2` selects only tests whose NAME contains a 2; TestFoo does not run, yet its entry
// "TestFoo - 2" was treated as selected (not protected), listed obsolete and deleted in clean mode. Fails before the fix.

import "testing"

func TestVerifF8RunMatchesOrdinal(t *testing.T) {
	saved := skippedTests.values
	skippedTests.values = nil
	defer func() { skippedTests.values = saved }()
	for _, c := range []struct{ id, run string }{
		{"TestFoo - 2", "2"},
		{"TestFoo - 10", "1"},
		{"TestFoo/bar - 1", "- 1"},
		{"TestFoo - 1", "1$"},
	} {
		if !testSkipped(c.id, c.run) {
			t.Errorf("-run %q does not select the test of entry %q (its name does not match), but the entry is not protected", c.run, c.id)
		}
	}
	// anchors refer to the test name, not to the id
	if testSkipped("TestFoo - 1", "^TestFoo$") {
		t.Errorf("-run ^TestFoo$ selects TestFoo, its entry must not be treated as filtered out")
	}
}
