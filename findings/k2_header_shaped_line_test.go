package snaps

// Known finding K2 (C01, C03, C04, C18): a body line that looks like another entry's header is read as that header.
// This demonstration FAILS on the real code (that is the finding).

import "testing"

type verifK2T struct {
	*testing.T
	name   string
	errors int
	ends   []func()
}

func (v *verifK2T) Name() string     { return v.name }
func (v *verifK2T) Error(...any)     { v.errors++ }
func (v *verifK2T) Log(...any)       {}
func (v *verifK2T) Cleanup(f func()) { v.ends = append(v.ends, f) }

func TestVerifK2HeaderShapedLine(t *testing.T) {
	saved := isCI
	isCI = false
	defer func() { isCI = saved }()
	c := WithConfig(Dir(t.TempDir()), Filename("k2"))
	r := &verifK2T{T: t, name: "TestK2"}
	c.MatchSnapshot(r, "[TestK2 - 2]")
	c.MatchSnapshot(r, "x")
	for _, f := range r.ends {
		f()
	}
	if r.errors != 0 {
		t.Errorf("recording two values in a fresh directory reported %d error(s): the second call read the first call's body line as its header", r.errors)
	}
}
