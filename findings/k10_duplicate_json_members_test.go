package snaps

// Known finding K10 (C14): for an object with duplicate member names the key sort of the pretty printer orders the
// equal keys by value, so a last-wins parser reads a different value from the snapshot than from the input.
// FAILS on the real code.

import (
	"encoding/json"
	"testing"
)

func TestVerifK10DuplicateMembers(t *testing.T) {
	in := []byte(`{"a":2,"a":1}`)
	snap := takeJSONSnapshot(&defaultConfig, in)
	var vin, vsnap map[string]any
	if err := json.Unmarshal(in, &vin); err != nil {
		t.Fatal(err)
	}
	if err := json.Unmarshal([]byte(snap), &vsnap); err != nil {
		t.Fatal(err)
	}
	if vin["a"] != vsnap["a"] {
		t.Errorf("input parses to a=%v, stored snapshot %q parses to a=%v", vin["a"], snap, vsnap["a"])
	}
}
