package snaps

// Known finding K8 (C11, C19): the standalone path template goes through fmt.Sprintf, so a `%` in the test name,
// file name or directory corrupts the path. FAILS on the real code.

import "testing"

func TestVerifK8PercentInName(t *testing.T) {
	reg := newStandaloneRegistry()
	got, _ := reg.getTestID("dir/TestA_100%_%d.snap", "TestA_100%_%d.snap")
	if want := "dir/TestA_100%_1.snap"; got != want {
		t.Errorf("first standalone snapshot of sub-test \"100%%\": path %q, want %q", got, want)
	}
}
