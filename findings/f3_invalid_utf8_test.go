package snaps

// Demonstration for finding F3 (properties C02, C13): with colours on, single-line texts are compared by a
// rune-level differ; two texts that differ only in bytes that are not valid UTF-8 decode to the same runes, the
// differ reports "equal", the report is empty and the Match* call passes silently.
// Fails on the unfixed tree, passes after the fix.

import (
	"testing"

	"github.com/gkampitakis/go-snaps/internal/colors"
)

func TestVerifF3InvalidUTF8(t *testing.T) {
	old := colors.NOCOLOR
	colors.NOCOLOR = false
	defer func() { colors.NOCOLOR = old }()
	stored, received := "a\xffb", "a\xfeb"
	if got := prettyDiff(stored, received, "", 1); got == "" {
		t.Errorf("prettyDiff(%q, %q) is empty although the texts differ", stored, received)
	}
	// inside a multi-line diff the changed line must not be omitted either
	a := "l1\nl2\nl3\nl4\nl5\nl6\nl7\nl8\nl9\nl10\nx\xffy\n"
	b := "l1\nl2\nl3\nl4\nl5\nl6\nl7\nl8\nl9\nl10\nx\xfey\n"
	d, ins, del := getUnifiedDiff(a, b)
	if ins < 1 || del < 1 {
		t.Errorf("getUnifiedDiff reports inserted=%d deleted=%d for one changed line; diff=%q", ins, del, d)
	}
}
