package snaps

// Known finding K6 (C07): with -count=2, a test that made 3 calls in its first execution and 2 in its second has
// cleanup=5; 5/2=2, so slot 3 (addressed in this process) is listed obsolete. FAILS on the real code.

import (
	"os"
	"path/filepath"
	"testing"
)

func TestVerifK6UnevenCounts(t *testing.T) {
	path := filepath.Join(t.TempDir(), "k6.snap")
	content := "\n[TestA - 1]\na\n---\n\n[TestA - 2]\nb\n---\n\n[TestA - 3]\nc\n---\n"
	os.WriteFile(path, []byte(content), 0o644)
	registry := map[string]map[string]int{path: {"TestA": 5}}
	obsolete, err := examineSnaps(registry, []string{path}, "", 2, false, false)
	if err != nil {
		t.Fatal(err)
	}
	if len(obsolete) != 0 {
		t.Errorf("slot(s) %v were addressed in this process but are listed obsolete", obsolete)
	}
}
