package snaps

// Demonstration for finding F4 (property C06): addNewSnapshot appended to the shared snapshot file without
// holding _m, so an append that lands between updateSnapshot's read and its overwrite was lost although the
// call logged "Snapshot added". Injected with `go test -overlay`; fails on the unfixed tree, passes after the fix.

import (
	"fmt"
	"os"
	"path/filepath"
	"sync"
	"testing"
)

func TestVerifF4LostAppend(t *testing.T) {
	dir := t.TempDir()
	path := filepath.Join(dir, "shared.snap")
	if err := addNewSnapshot("[TestU - 1]", "v0", path); err != nil {
		t.Fatal(err)
	}
	lost := 0
	total := 0
	for round := 0; round < 300 && lost == 0; round++ {
		var wg sync.WaitGroup
		ids := []string{}
		for g := 0; g < 4; g++ {
			id := fmt.Sprintf("[TestA%d_%d - 1]", round, g)
			ids = append(ids, id)
			wg.Add(2)
			go func() {
				defer wg.Done()
				_ = updateSnapshot("[TestU - 1]", fmt.Sprintf("v%d", round), path)
			}()
			go func(id string) {
				defer wg.Done()
				if err := addNewSnapshot(id, "body", path); err != nil {
					t.Error(err)
				}
			}(id)
		}
		wg.Wait()
		for _, id := range ids {
			total++
			if _, _, err := getPrevSnapshot(id, path); err != nil {
				lost++
			}
		}
	}
	if lost > 0 {
		data, _ := os.ReadFile(path)
		t.Fatalf("%d of %d appended entries are gone (file has %d bytes)", lost, total, len(data))
	}
}
