package snaps

// Demonstration for finding F6 (properties C09, C05): Clean with CleanOpts{Sort: true} but without
// UPDATE_SNAPS=true|clean must only reorder; it dropped stale entries from the rewritten file.
// Fails on the unfixed tree, passes after the fix.

import (
	"os"
	"path/filepath"
	"strings"
	"testing"
)

func TestVerifF6SortDeletesStale(t *testing.T) {
	dir := t.TempDir()
	path := filepath.Join(dir, "x_test.snap")
	content := "\n[TestB - 1]\nb\n---\n\n[TestStale - 1]\nstale\n---\n\n[TestA - 1]\na\n---\n"
	if err := os.WriteFile(path, []byte(content), 0o644); err != nil {
		t.Fatal(err)
	}
	registry := map[string]map[string]int{path: {"TestA": 1, "TestB": 1}}
	obsolete, err := examineSnaps(registry, []string{path}, "", 1, false /* update */, true /* sort */)
	if err != nil {
		t.Fatal(err)
	}
	if len(obsolete) != 1 || obsolete[0] != "TestStale - 1" {
		t.Fatalf("obsolete = %v", obsolete)
	}
	got, _ := os.ReadFile(path)
	if !strings.Contains(string(got), "[TestStale - 1]\nstale\n---\n") {
		t.Errorf("sorting without update deleted the stale entry; file is now:\n%s", got)
	}
}
