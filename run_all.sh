#!/bin/sh
# Runs every registered quick check; prints one line per property.
cd /verif
for p in $(python3 -c "import json;print(' '.join(c['property_id'] for c in json.load(open('MANIFEST.json'))['checks']))"); do
  start=$(date +%s)
  out=$(/verif/bin/govc check --property $p --tier ${1:-quick} 2>&1); rc=$?
  end=$(date +%s)
  echo "$p exit=$rc $((end-start))s $(echo "$out" | grep -c VIOLATION) violations; $(echo "$out" | grep -c KNOWN-FINDING) known; $(echo "$out" | tail -1)"
  echo "$out" | grep "VIOLATION\|failed obligation" | head -6
done
