#!/usr/bin/env python3
# Regenerates MANIFEST.json from contracts/properties.json (claimed checks) and not_applicable.json (reasons).
import json
props=[json.loads(l) for l in open('/verif/properties.jsonl')]
cfg=json.load(open('/verif/contracts/properties.json'))
na=json.load(open('/verif/not_applicable.json'))
hooks=json.load(open('/verif/hooks.json'))
checks=[]
for p in props:
    pid=p['id']
    if pid not in cfg: continue
    c=cfg[pid]
    level=c.get('level','proof')
    checks.append({
      "property_id":pid,
      "quick_cmd":f"/verif/bin/govc check --property {pid} --tier quick",
      "thorough_cmd":f"/verif/bin/govc check --property {pid} --tier thorough",
      "evidence_file":f"/verif/evidence/{pid}.json",
      "replay_cmd_template":"/verif/bin/govc replay {path}",
      "engine":"govc",
      "level_claimed":{"category":level,"text":c.get('claim',c.get('explanation','')),"design_ref":"DESIGN.md section "+c.get('design_ref','6')},
      "level_note":c.get('note',"Trusted: the govc VC generator itself, the SMT solvers' unsat answers, the assumed contracts of library functions listed in the evidence (trusted_base), mathematical int, value semantics of strings/slices, clean success/failure of OS calls. Termination is not proved."),
      "technique":c.get('technique',"contract-based deductive verification: weakest-precondition-style symbolic execution of the real Go source against //@ contracts, obligations discharged by z3/cvc5"),
    })
m={"version":1,
 "setup_cmd":"cd /verif/govc && GOFLAGS=-mod=vendor GOPROXY=off GOSUMDB=off GOTOOLCHAIN=local go build -o /verif/bin/govc .",
 "hooks":hooks,
 "engines":[{"name":"govc","path":"/verif/govc","serves_properties":[c["property_id"] for c in checks],"kind_free_text":"home-made VC generator for Go (go/ast+go/types symbolic execution against contracts kept as //@ comments in /repo), obligations discharged by z3 5.1/z3 4.8.12/cvc5"}],
 "checks":checks,
 "notes":"see DESIGN.md; known findings in known-findings.json",
 "not_applicable":[{"property_id":p['id'],"reason":na.get(p['id'],"check not built yet")} for p in props if p['id'] not in cfg]}
json.dump(m,open('/verif/MANIFEST.json','w'),indent=1)
print(len(checks),"checks")
