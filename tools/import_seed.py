#!/usr/bin/env python3
"""import_seed.py <PROP> <name> <worktree> <round> "<what>": copy a sub-agent's seeded change into /verif/seeded/<name>/,
confirm it on a scratch copy of /repo (suite passes with the change, demo fails with it, demo passes without it)."""
import sys,os,subprocess,json,glob,shutil
prop,name,wt,rnd,what=sys.argv[1:6]
E="GOFLAGS=-mod=mod GOPROXY=off GOSUMDB=off GOTOOLCHAIN=local"
def sh(c): return subprocess.run(c,shell=True,capture_output=True,text=True)
d="/verif/seeded/%s/"%name; os.makedirs(d,exist_ok=True)
shutil.copy(wt+"/patch.diff",d+"patch.diff")
demos=[p for p in glob.glob(wt+"/**/zz_seed_demo_test.go",recursive=True)]
demo=demos[0]; rel=os.path.relpath(demo,wt); shutil.copy(demo,d+"demo_test.go")
notes=open(wt+"/meta.txt").read() if os.path.exists(wt+"/meta.txt") else ""
sc="/tmp/seed_confirm"; sh("rm -rf %s; mkdir -p %s; rsync -a --exclude .git /repo/ %s/"%(sc,sc,sc))
log=[]
a=sh("cd %s && patch -p1 -s < %spatch.diff"%(sc,d)); log.append(a.stdout+a.stderr)
r1=sh("cd %s && %s go test -vet=off -count=1 ./... 2>&1 | tail -8"%(sc,E)); s1=sh("cd %s && %s go test -vet=off -count=1 ./... >/dev/null 2>&1; echo $?"%(sc,E)).stdout.strip()
shutil.copy(demo,sc+"/"+rel)
pk="./"+os.path.dirname(rel)+"/"
r2=sh("cd %s && %s go test -vet=off -count=1 -run TestSeedDemo %s 2>&1 | tail -15"%(sc,E,pk)); s2=sh("cd %s && %s go test -vet=off -count=1 -run TestSeedDemo %s >/dev/null 2>&1; echo $?"%(sc,E,pk)).stdout.strip()
sh("cd %s && patch -p1 -R -s < %spatch.diff"%(sc,d))
r3=sh("cd %s && %s go test -vet=off -count=1 -run TestSeedDemo %s 2>&1 | tail -5"%(sc,E,pk)); s3=sh("cd %s && %s go test -vet=off -count=1 -run TestSeedDemo %s >/dev/null 2>&1; echo $?"%(sc,E,pk)).stdout.strip()
line="confirm: suite_with_change=%s (0 wanted) demo_with_change=%s (nonzero wanted) demo_without_change=%s (0 wanted)"%(s1,s2,s3)
open(d+"confirm.log","w").write("\n".join(log)+r1.stdout+r2.stdout+r3.stdout+line+"\n")
json.dump({"id":name,"property":prop,"round":int(rnd),"source":"independent sub-agent given only the property text and a scratch worktree without contract files","what":what,"demo_package":os.path.dirname(rel),"agent_notes":notes},open(d+"meta.json","w"),indent=1)
sh("rm -rf "+sc)
print(name,line)
