#!/bin/sh
# usage: try_seed.sh <seed-id> <patch.diff> <demo_test.go> <demo pkg dir (e.g. snaps)> <property> [more properties to run]
# 1. confirms the seed in a scratch worktree (suite passes with it, demo fails with it and passes without),
# 2. applies it to /repo, runs the given property checks, undoes it,
# 3. stores everything under /verif/seeded/<id>/.
set -u
id="$1"; patch="$2"; demo="$3"; pkg="$4"; shift 4
export GOFLAGS=-mod=mod GOPROXY=off GOSUMDB=off GOTOOLCHAIN=local
out=/verif/seeded/$id; mkdir -p $out
cp "$patch" $out/patch.diff; cp "$demo" $out/demo_test.go
wt=/tmp/confirm_$id
git -C /repo worktree remove --force $wt >/dev/null 2>&1
git -C /repo worktree add -q --detach $wt HEAD || exit 2
demoname=zz_seed_demo_test.go
log=$out/confirm.log; : > $log
( cd $wt && git apply $out/patch.diff ) >>$log 2>&1 || { echo "PATCH DOES NOT APPLY"; git -C /repo worktree remove --force $wt; exit 3; }
( cd $wt && go build ./... && go test -vet=off -count=1 ./... ) >>$log 2>&1; suite=$?
cp $out/demo_test.go $wt/$pkg/$demoname
( cd $wt && go test -vet=off -count=1 -run 'Seed|seed|ZZ|Demo' ./$pkg ) >>$log 2>&1; with=$?
( cd $wt && git apply -R $out/patch.diff && go test -vet=off -count=1 -run 'Seed|seed|ZZ|Demo' ./$pkg ) >>$log 2>&1; without=$?
git -C /repo worktree remove --force $wt
echo "confirm: suite_with_change=$suite (0 wanted) demo_with_change=$with (nonzero wanted) demo_without_change=$without (0 wanted)" | tee -a $log
if [ $suite -ne 0 ] || [ $with -eq 0 ] || [ $without -ne 0 ]; then echo "SEED NOT CONFIRMED"; exit 4; fi
# run the checks against the seed
git -C /repo apply $out/patch.diff || exit 5
: > $out/checks.log
for p in "$@"; do
  start=$(date +%s)
  res=$(cd /verif && /verif/bin/govc check --property $p 2>&1); rc=$?
  end=$(date +%s)
  echo "== $p exit=$rc $((end-start))s" | tee -a $out/checks.log
  echo "$res" | grep "VIOLATION\|failed obligation\|KNOWN" | head -12 | tee -a $out/checks.log
done
git -C /repo checkout -- . ; git -C /repo status --short | head -3
