#!/usr/bin/env python3
"""Automatic mutation sweep (tooling; not a registered check). Line-level mutations of every non-test source line inside a
function that has a contract; a mutant is interesting when it builds, PASSES the repository's test suite and every
obligation of the enclosing function (and its closures) still discharges: that is either an equivalent mutant or a gap in the
contracts. Works on scratch copies (GOVC_REPO/GOVC_OUT); /repo is not touched.
usage: sweep.py <file-substring> [--jobs N]   -> /verif/work/sweep_<n>.jsonl"""
import re,subprocess,sys,os,json,itertools,concurrent.futures as cf
E="GOFLAGS=-mod=mod GOPROXY=off GOSUMDB=off GOTOOLCHAIN=local"
def sh(c,t=600):
    try: return subprocess.run(c,shell=True,capture_output=True,text=True,timeout=t)
    except subprocess.TimeoutExpired: 
        class R: returncode=124; stdout=""; stderr="timeout"
        return R()
FILES=[l for l in sh("cd /repo && git ls-files '*.go'").stdout.split() if not l.endswith("_test.go") and "zz_contracts" not in l and not l.startswith("internal/test") and not l.startswith("examples")]
contracted=set(re.findall(r"^== ([^:]+):", "", re.M))
def contracts():
    names=set()
    for f in sh("ls /repo/*/zz_contracts_verif.go /repo/internal/*/zz_contracts_verif.go /repo/match/internal/*/zz_contracts_verif.go 2>/dev/null").stdout.split():
        pkg=re.search(r"^package (\w+)",open(f).read(),re.M).group(1)
        for m in re.finditer(r"^//@ func ((?:\(\*?\w+\)\.)?[\w.$]+)\(",open(f).read(),re.M):
            names.add(pkg+"."+m.group(1))
    return names
WAVE=1
MUTS2=[(r"(?<![\w.\"])0(?![\w.\"x])","1"),(r"(?<![\w.\"])1(?![\w.\"])","0"),(r"(?<![\w.\"])1(?![\w.\"])","2"),(r"\[0\]","[1]"),(r"len\((\w+)\) == 0","len(\\1) == 1"),(r"len\((\w+)\) > 0","len(\\1) > 1")]
MUTS=[
 (r"==","!="),(r"!=","=="),(r"<=","<"),(r">=",">"),(r"(?<![<>=!-])<(?![=<-])","<="),(r"(?<![<>=!-])>(?![=>])",">="),
 (r"&&","||"),(r"\|\|","&&"),(r"\+ 1\b","+ 2"),(r"\+ 1\b",""),(r"- 1\b",""),(r"\btrue\b","false"),(r"\bfalse\b","true"),
 (r"\bcontinue\b","break"),(r"\bbreak\b","continue"),(r"if !","if "),(r"\+\+","--"),(r"\bnil\b == ","nil != "),
]
def gen(path):
    src=open("/repo/"+path).read().split("\n")
    pkg=re.search(r"^package (\w+)","\n".join(src),re.M).group(1)
    cur=None; depth=0
    out=[]
    for i,l in enumerate(src):
        m=re.match(r"^func (?:\((\w+) (\*?)([\w\[\], ]+?)(?:\[[^\]]*\])?\) )?(\w+)",l)
        if m:
            recv=m.group(3); star=m.group(2); name=m.group(4)
            if recv: cur="%s.%s.%s"%(pkg,("(*%s)"%recv) if star else recv,name)
            else: cur="%s.%s"%(pkg,name)
        if cur is None: continue
        s=l.strip()
        if not s or s.startswith("//") or s.startswith("func "): continue
        code=l.split("//")[0] if '"' not in l else l
        for pat,rep in MUTS:
            for mm in re.finditer(pat,code):
                # skip inside string literals (rough)
                if code[:mm.start()].count('"')%2==1: continue
                nl=code[:mm.start()]+rep+code[mm.end():]
                out.append((path,i,cur,l,nl,"%s->%s"%(pat,rep)))
        if WAVE==3:
            out=[o for o in out if o[0]!=path or o[1]!=i]
            if i+1 < len(src):
                n=src[i+1]
                simple=lambda t: t.strip() and not t.strip().startswith(("//","}","return","if ","for ","switch","case ","default","func ","var (",")","else","go ")) and not t.rstrip().endswith(("{","(",","))
                ind=lambda t: len(t)-len(t.lstrip())
                if simple(l) and simple(n) and ind(l)==ind(n) and l.strip()!=n.strip():
                    out.append((path,i,cur,l+" / "+n.strip(),n+"\n"+l,"swap-adjacent"))
            continue
        if WAVE==2:
            out=[o for o in out if o[0]!=path or o[1]!=i]  # wave 2: only the additional operators on this line
            for pat,rep in MUTS2:
                for mm in re.finditer(pat,code):
                    if code[:mm.start()].count('"')%2==1: continue
                    nl=code[:mm.start()]+re.sub(pat,rep,mm.group(0))+code[mm.end():]
                    if nl!=code: out.append((path,i,cur,l,nl,"%s->%s"%(pat,rep)))
            if s=="return": out.append((path,i,cur,l,"","delete-return"))
            if re.match(r"^\s*[\w.\[\]]+ (=|\+=|-=) [^{]+$",l) and ":=" not in l: out.append((path,i,cur,l,"","delete-assign"))
            continue
        # statement deletion: a single-line call statement
        if re.match(r"^\s*[\w.\[\]]+\([^{}]*\)$",l) and not s.startswith("return") and not s.startswith("defer"):
            out.append((path,i,cur,l,"","delete-stmt"))
    return out
def run(job):
    idx,(path,line,fn,old,new,kind)=job
    sc="/tmp/sweep_%d"%idx; outd=sc+"_out"
    sh("rm -rf %s %s; mkdir -p %s; rsync -a --exclude .git /repo/ %s/"%(sc,outd,outd,sc))
    src=open(sc+"/"+path).read().split("\n"); src[line]=new
    if kind=="swap-adjacent": src[line+1]=""
    open(sc+"/"+path,"w").write("\n".join(src))
    res={"file":path,"line":line+1,"func":fn,"kind":kind,"old":old.strip(),"new":new.strip()}
    b=sh("cd %s && %s go build ./... 2>&1 | head -3"%(sc,E))
    if b.stdout.strip():
        # unused import/variable: not a mutant
        res["status"]="nobuild"; sh("rm -rf %s %s"%(sc,outd)); return res
    t=sh("cd %s && %s go test -vet=off -count=1 -timeout 120s ./... >/dev/null 2>&1; echo $?"%(sc,E),200)
    if t.stdout.strip()!="0":
        res["status"]="suite-kills"; sh("rm -rf %s %s"%(sc,outd)); return res
    fns=[f for f in CONTRACTED if f==fn or f.startswith(fn+"$")]
    fns=[("i"+f if f.startswith("yaml.") else f) for f in fns]  # govc names the internal yaml package iyaml
    fn=("i"+fn if fn.startswith("yaml.") else fn)
    if not fns:
        res["status"]="no-contract"; sh("rm -rf %s %s"%(sc,outd)); return res
    v=sh("cd /verif && GOVC_REPO=%s GOVC_OUT=%s /verif/bin/govc verify --func '%s' --timeout 20 2>&1"%(sc,outd,",".join(fns)),900)
    fails=[l for l in v.stdout.split("\n") if l.startswith("FAIL") or l.startswith("ERROR") or "UNSUPPORTED" in l]
    res["status"]="caught" if fails else "SURVIVES"
    res["fails"]=[f[:140] for f in fails[:3]]
    if not fails:
        # the property checks that list the function (they include the bounded stand-ins)
        props=[k for k,v in PROPS.items() if fn in v.get("funcs",[])]
        res["props"]=props
        for pr in props:
            c=sh("cd /verif && GOVC_REPO=%s GOVC_OUT=%s /verif/bin/govc check --property %s 2>&1"%(sc,outd,pr),1500)
            if c.returncode!=0:
                res["status"]="caught"; res["fails"]=[l[:160] for l in (c.stdout+c.stderr).split("\n") if "failed obligation" in l or "VIOLATION" in l][:2]; res["by"]=pr
                break
    sh("rm -rf %s %s"%(sc,outd)); return res
if __name__=="__main__":
    flt=sys.argv[1]; jobs=4
    WAVE=2 if "--wave2" in sys.argv else (3 if "--wave3" in sys.argv else 1)
    if "--jobs" in sys.argv: jobs=int(sys.argv[sys.argv.index("--jobs")+1])
    CONTRACTED=contracts()
    PROPS=json.load(open('/verif/contracts/properties.json'))
    allm=[]
    for f in FILES:
        if flt in f: allm+=gen(f)
    allm=[m for m in allm if any(c==m[2] or c.startswith(m[2]+"$") for c in CONTRACTED)]
    print(len(allm),"mutants in functions under contract",flush=True)
    outp="/verif/work/sweep%s_%s.jsonl"%({1:"",2:"2",3:"3"}[WAVE],re.sub(r"\W","_",flt))
    with open(outp,"w") as fo, cf.ThreadPoolExecutor(jobs) as ex:
        for r in ex.map(run,enumerate(allm)):
            fo.write(json.dumps(r)+"\n"); fo.flush()
            if r["status"] in ("SURVIVES",): print(r["status"],r["file"],r["line"],r["func"],r["kind"],"|",r["old"],"=>",r["new"],flush=True)
    import collections
    print(collections.Counter(json.loads(l)["status"] for l in open(outp)))
