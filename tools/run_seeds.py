#!/usr/bin/env python3
"""Regression over all seeded changes: each patch is applied to a scratch copy of /repo's working tree and the checks of
the properties named in its meta.json (plus any given on the command line) are run against the copy through
GOVC_REPO/GOVC_OUT (tooling-only overrides; /repo is not touched). Writes seeded/last_run.json."""
import json,os,subprocess,sys,glob
def sh(cmd): return subprocess.run(cmd,shell=True,capture_output=True,text=True)
extra={"C04-escape-fastpath-firstline-r2":["C04","C01"],"C05-empty-standalone-notfound-r2":["C05","C19"],"C03-scanner-token-retained-r2":["C03","C04"],
 "C16-any-return-on-missing":["C16","C15","C17"],"C09-tests-map-leak-r2":["C09","C10"],"C07-data-buffer-leak":["C07","C10"],"C10-stale-body-rescanned":["C10","C09"],
 "C03-json-ordinal-late":["C03","C17"],"C04-removeSnapshot-prefix":["C04","C09"],"C05-clean-sort-on-ci":["C05","C09"],"C18-escape-replaceall-adjacent":["C18","C01"],"C01-replaceall-adjacent-r2":["C01","C18"]}
res=[]
flt=sys.argv[1] if len(sys.argv)>1 else ""
for d in sorted(glob.glob("/verif/seeded/*/")):
    sid=os.path.basename(d.rstrip("/"))
    if flt and flt not in sid: continue
    meta=json.load(open(d+"meta.json")) if os.path.exists(d+"meta.json") else {}
    props=extra.get(sid,[meta.get("property",sid[:3])])
    scratch="/tmp/govc_seed_%d"%os.getpid(); out=scratch+"_out"
    sh("rm -rf %s %s && mkdir -p %s && rsync -a --exclude .git /repo/ %s/"%(scratch,out,out,scratch))
    a=sh("cd %s && patch -p1 -s < %spatch.diff"%(scratch,d))
    if a.returncode!=0:
        res.append({"seed":sid,"status":"PATCH-DOES-NOT-APPLY","detail":(a.stdout+a.stderr)[:300]}); print(sid,"PATCH DOES NOT APPLY"); continue
    caught={}
    for p in props:
        r=sh("cd /verif && GOVC_REPO=%s GOVC_OUT=%s /verif/bin/govc check --property %s"%(scratch,out,p))
        obl=[l.split("failed obligation:")[1].strip() for l in r.stderr.split("\n") if "failed obligation:" in l]
        conf=[l for l in r.stdout.split("\n") if l.startswith("VIOLATION") and not l.rstrip().endswith("no-failing-input-found")]
        if r.returncode==1 and obl:
            kind="stale-contract" if all("#stale-contract" in o for o in obl) else "semantic"
            caught[p]={"kind":kind,"obligations":obl[:3],"failing_input_replayed":bool(conf)}
    status="MISSED" if not caught else ("semantic" if any(v["kind"]=="semantic" for v in caught.values()) else "stale-contract")
    res.append({"seed":sid,"status":status,"checks":caught}); print(sid,status,{k:(v["obligations"][:1],v["failing_input_replayed"]) for k,v in caught.items()},flush=True)
    sh("rm -rf %s %s"%(scratch,out))
if not flt: json.dump(res,open("/verif/seeded/last_run.json","w"),indent=1)
print("summary:",{s:sum(1 for r in res if r["status"]==s) for s in set(r["status"] for r in res)})
