#!/bin/sh
# usage: run_demo.sh <test file under /verif/findings or absolute> <-run pattern> [pkg dir relative to /repo]
f="$1"; case "$f" in /*) ;; *) f="/verif/findings/$f";; esac
pkg="${3:-snaps}"
mkdir -p /verif/work
ov="/verif/work/ov_demo_$$.json"
printf '{"Replace": {"/repo/%s/zz_verif_%s": "%s"}}' "$pkg" "$(basename "$f")" "$f" > "$ov"
cd /repo && GOFLAGS=-mod=mod GOPROXY=off GOSUMDB=off GOTOOLCHAIN=local go test -overlay "$ov" -vet=off -count=1 -timeout 120s -run "$2" "./$pkg"
rc=$?; rm -f "$ov"; exit $rc
