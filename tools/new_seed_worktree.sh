#!/bin/sh
# usage: new_seed_worktree.sh <property id> <suffix>   -> scratch worktree /tmp/wtS_<id> without the contract files and a
# prompt /tmp/promptS_<id>.txt for a fresh sub-agent (which gets ONLY that prompt). Remove the worktree afterwards with
#   git -C /repo worktree remove --force /tmp/wt<suffix>_<id>
id="$1"; suf="${2:-x}"; wt=/tmp/wt${suf}_$id
git -C /repo worktree add -q --detach $wt HEAD || exit 1
(cd $wt && git rm -q $(git ls-files | grep zz_contracts_verif.go) && git -c user.name=x -c user.email=x@x commit -qm "scratch: without contract files")
python3 - "$id" "$wt" "$suf" <<'PY'
import json,sys
pid,wt,suf=sys.argv[1:4]
for l in open('/verif/properties.jsonl'):
    d=json.loads(l)
    if d['id']==pid: break
t=open('/verif/tools/seed_prompt_template.txt').read()
t=t.replace('{WT}',wt).replace('{ID}',pid).replace('{TITLE}',d['title']).replace('{STATEMENT}',d['statement']).replace('{QUANTIFIER}',d['quantifier']['text']).replace('{PATCHTMP}','/tmp/p%s_%s.diff'%(suf,pid))
open('/tmp/prompt%s_%s.txt'%(suf,pid),'w').write(t)
print('/tmp/prompt%s_%s.txt'%(suf,pid))
PY
