#!/usr/bin/env python3
"""Writes contracts/properties.json: which functions/lemmas/bounded stand-ins decide which property."""
import json
bodies=["snaps.matchSnapshot","snaps.matchJSON","snaps.matchYAML","snaps.matchStandaloneSnapshot","snaps.matchStandaloneJSON"]
cleanups=[b+"$1" for b in bodies]
wrappers=["snaps.MatchSnapshot","snaps.(*Config).MatchSnapshot","snaps.MatchJSON","snaps.(*Config).MatchJSON","snaps.MatchYAML","snaps.(*Config).MatchYAML",
 "snaps.MatchStandaloneSnapshot","snaps.(*Config).MatchStandaloneSnapshot","snaps.MatchStandaloneJSON","snaps.(*Config).MatchStandaloneJSON"]
storage=["snaps.snapshotScanner","snaps.getPrevSnapshot","snaps.addNewSnapshot"]
standalone=["snaps.upsertStandaloneSnapshot","snaps.getPrevStandaloneSnapshot","snaps.(*syncStandaloneRegistry).getTestID","snaps.(*syncStandaloneRegistry).reset"]
registry=["snaps.(*syncRegistry).getTestID","snaps.(*syncRegistry).reset"]
P={}
P["C01"]={"level":"proof","design_ref":"6 C01",
 "funcs":["snaps.escapeEndChars","snaps.unescapeEndChars"]+storage+["snaps.matchSnapshot","snaps.matchJSON","snaps.matchYAML","snaps.takeYAMLSnapshot"],
 "explanation":"Round trip through the file format for every body text: addNewSnapshot appends a record whose lookup is the appended body (lemmas add_shape, RT_add, WF_add over the real Fprintf), getPrevSnapshot computes exactly the first-occurrence lookup (loop invariants over the scanner), and a matching stored body makes each multi-entry match* body pass without any effect (postcondition replay: no Error, no Log, no write). Values are uninterpreted lines, so neither content, UTF-8 validity nor length matters; CR-terminated lines are excluded as in the statement."}
difflib=["difflib.min","difflib.max","difflib.(*sequenceMatcher).chainB","difflib.(*sequenceMatcher).setSeq1","difflib.(*sequenceMatcher).setSeq2","difflib.(*sequenceMatcher).setSeqs","difflib.NewMatcher",
 "difflib.(*sequenceMatcher).isBJunk","difflib.(*sequenceMatcher).findLongestMatch","difflib.(*sequenceMatcher).getMatchingBlocks$1","difflib.(*sequenceMatcher).getMatchingBlocks",
 "difflib.(*sequenceMatcher).getOpCodes","difflib.(*sequenceMatcher).GetGroupedOpCodes","difflib.FormatRangeUnified"]
colorsf=["colors.Sprint","colors.Fprint","colors.FprintEqual","colors.hasNewlineSuffix","colors.trimSuffix","colors.FprintDelete","colors.FprintInsert","colors.FprintDeleteBold","colors.FprintInsertBold","colors.FprintRange","colors.FprintBg"]
difff=["snaps.splitNewlines","snaps.isSingleline","snaps.hasNewLine","snaps.shouldPrintHighlights","snaps.printRange","snaps.intPadding$1","snaps.intPadding","snaps.singlelineDiff","snaps.buildDiffReport","snaps.getUnifiedDiff","snaps.prettyDiff"]
P["C02"]={"level":"proof","design_ref":"6 C02",
 "funcs":difff+difflib+["snaps.escapeEndChars","snaps.unescapeEndChars"]+bodies,
 "lemmas":["compare_faithful","escape_injective","escape_injective_noESC","body_noEND","unesc_esc"],
 "only":["snaps\\.(splitNewlines|isSingleline|hasNewLine|shouldPrintHighlights|printRange|intPadding|singlelineDiff|buildDiffReport|getUnifiedDiff|prettyDiff|escapeEndChars|unescapeEndChars)","difflib\\.","#ensures#(mismatch|one_outcome|replay|missing_ro)","#vacuity","lemma\\."],
 "assumptions":["diffmatchpatch.DiffMain/DiffCleanupSemantic: a single Equal diff means identical texts, for valid UTF-8 (assumed contract; bounded validation pending)","a concatenation of newline-terminated lines determines the lines (axiom joinE_inj)","JSON snapshots (tidwall/pretty output) contain no line equal to --- (needed only for the JSON mismatch clause)"],
 "explanation":"prettyDiff returns the empty report iff the two texts are identical: the line diff is non-empty for different texts (getUnifiedDiff#nonempty, resting on the verified difflib: opcodes tile both texts, identical ranges only where marked, grouping never omits a changed opcode), the inline diff is only used for valid UTF-8 (shouldPrintHighlights#valid_utf8, finding F3 fixed) where the assumed diffmatchpatch contract applies, and buildDiffReport is empty iff its diff is. In the match* bodies a stored body different from the received text leads, without update permission, to exactly one Error and no write (postcondition mismatch); escaping is injective only on texts without a /-/-/-/ line (known finding K1)."}
P["C13"]={"level":"proof","design_ref":"6 C13",
 "funcs":difflib+colorsf+difff,
 "explanation":"Unbounded in both texts (lines are uninterpreted values with equality, so whitespace/invalid UTF-8/long lines/the popular-line heuristic need no special cases). difflib: findLongestMatch returns an in-window block of identical lines (DP invariant), getMatchingBlocks returns in-bounds, identical, strictly ordered, sentinel-terminated blocks (recursive closure + collapse loop), getOpCodes tiles both texts contiguously from (0,0) to (len a,len b) with the tag shapes of the statement and marks Equal only identical lines, and if every opcode covers identical ranges the texts are identical; GetGroupedOpCodes yields non-empty groups of in-bounds opcodes and keeps at least one changed opcode whenever the texts differ. getUnifiedDiff: non-empty output for different texts; under NO_COLOR the returned counts equal the numbers of FprintDelete/FprintInsert calls (ghost counters), which buildDiffReport prints in the header; colors.* under NO_COLOR output exactly an ASCII prefix plus the argument. Not decided: that each printed - line is a line of the stored text by position (only by construction of the loops), and the replay of the edit script as a whole-text equation."}
P["C03"]={"level":"proof","design_ref":"6 C03",
 "funcs":registry+standalone[2:]+cleanups+bodies+["snaps.addNewSnapshot","snaps.updateSnapshot"],
 "only":["#ensures#(count|cleanup|id|inv|stable|ordinal|iso|wf|other|created_others|updated_others|invalid|matcher_errors)","#pre\\(\\(\\*sync(Standalone)?Registry\\)","#vacuity","lemma\\.", "#ensures#\\d", "#frame#M"],
 "explanation":"Ordinal contract of both registries (k-th call of test N on a file gets id fmtID(N,k); other keys framed), ordinal consumed on every path of every match* body including validation and matcher failures, reset by the Cleanup closure; isolation lemmas ISO_add_found/ISO_add_body and WF_add for appends (restricted by K2's hypothesis)."}
P["C04"]={"level":"proof","design_ref":"6 C04",
 "funcs":["snaps.removeSnapshot","snaps.overwriteFile","snaps.updateSnapshot","snaps.upsertStandaloneSnapshot"]+bodies,
 "only":["snaps\\.(removeSnapshot|overwriteFile|updateSnapshot|upsertStandaloneSnapshot)#","#ensures#(updated|updated_lookup|updated_others|equal_nowrite|replay|created|mismatch)","#pre\\((updateSnapshot|upsertStandaloneSnapshot)\\)","#vacuity"],
 "explanation":"updateSnapshot rewrites the file to exactly: tokens before and including the header, the new body, the terminator, the tokens after the old terminator (postcondition content = updShape, proved from the loop invariant over the real scanner/buffer code and overwriteFile's Truncate+Seek+Write); lemmas U_own, U_wf, U_other_* turn that into: the slot replays the new value, every other slot keeps found/body, well-formedness is kept. In the match* bodies an equal value returns before any write (equal_nowrite) and an update stores exactly the new formatted value (updated_lookup); standalone files are replaced wholesale. Restricted by uniqueHdr/lacks/apart (K2 class)."}
P["C05"]={"level":"proof","design_ref":"6 C05",
 "funcs":["snaps.shouldUpdate","snaps.shouldCreate"]+bodies+wrappers+["snaps.examineFiles","snaps.examineSnaps","snaps.Clean"],
 "only":["snaps\\.should","snaps\\.Clean#","#ensures#(report_only|protected|noop)","#ensures#(ci|missing_ro|created|updated|mismatch|replay|equal_nowrite|nocall|invalid|matcher_errors)","#pre\\((addNewSnapshot|updateSnapshot|upsertStandaloneSnapshot)\\)","#vacuity","#frame#fs"],
 "explanation":"Mode table proved symbolically (CI, Update option and UPDATE_SNAPS are symbolic): shouldUpdate/shouldCreate equal the table of the statement; in all five match* bodies and their ten exported wrappers every write is dominated by the right gate (postconditions ci, missing_ro, created, updated, mismatch), for all cells at once. The Clean half of the statement is decided under C09."}
P["C06"]={"level":"other","design_ref":"5, 6 C06",
 "funcs":["snaps.getPrevSnapshot","snaps.addNewSnapshot"]+registry+standalone[2:]+["snaps.(*events).register"]+bodies,
 "only":["#pre\\(\\(\\*(RW)?Mutex\\)\\.","\\.lock","#lock","#frame#held","#ensures#locks"],
 "explanation":"Lockset obligations only: every access to guarded state (the shared snapshot file under _m, registries and event counters under their mutexes) is inside the critical section of its mutex, and every function returns with its locks released. Serialisability follows from these obligations plus the C03 frame obligations by the paper argument of DESIGN 5.1, which is NOT machine-checked; schedules are not explored and the Go memory model is not modelled."}
P["C12"]={"level":"proof","design_ref":"6 C12",
 "funcs":wrappers+bodies+["snaps.WithConfig","snaps.Update$1","snaps.Filename$1","snaps.Dir$1","snaps.Ext$1","snaps.JSON$1","snaps.(*JSONConfig).getPrettyJSONOptions","snaps.takeJSONSnapshot","snaps.constructFilename","snaps.snapshotPath"],
 "only":["#ensures#config_","#frame#H\\.snaps\\.(Config|JSONConfig)","#frame#P\\.","#vacuity","snaps\\.WithConfig#","\\$1#","#ensures#(fresh|defaults_kept|no_args)"],
 "explanation":"No function that receives a *Config assigns through it: the heap arrays Config.* and JSONConfig.* are unchanged on every object allocated at entry (semantic frame obligations and the explicit postconditions config_immutable/config_pointees on all ten entry points and five bodies); WithConfig returns a fresh object and leaves defaultConfig unchanged; each option closure assigns only fields of its argument."}
P["C17"]={"level":"proof","design_ref":"6 C17",
 "funcs":["snaps.applyJSONMatchers","snaps.applyYAMLMatchers","snaps.matchJSON","snaps.matchYAML","snaps.matchStandaloneJSON"],
 "only":["snaps\\.apply","#ensures#(matcher_errors|invalid|ordinal|one_outcome)","#vacuity"],
 "explanation":"Matcher failures: when the fold of the matchers reports at least one error the call reports exactly one failure, writes nothing and still consumes its ordinal, in every mode cell (postcondition matcher_errors of the three matcher-taking bodies); applyJSON/YAMLMatchers is the left-to-right fold that skips failing matchers and counts all their errors (loop invariant)."}
P["C19"]={"level":"proof","design_ref":"6 C19",
 "funcs":standalone+["snaps.matchStandaloneSnapshot","snaps.matchStandaloneJSON","snaps.matchStandaloneSnapshot$1","snaps.matchStandaloneJSON$1"],
 "explanation":"Standalone content is an opaque byte string: upsertStandaloneSnapshot makes the file content equal the formatted value, getPrevStandaloneSnapshot returns it unchanged, the k-th call maps to file subst(generic,k), creation and update store exactly the formatted value (postconditions created/updated), equal content passes without writing."}
P["C20"]={"level":"proof","design_ref":"6 C20",
 "funcs":["snaps.handleError","snaps.(*events).register","snaps.printEvent","snaps.summary$1","snaps.summary","snaps.trackSkip"]+bodies,
 "only":["snaps\\.handleError","register","snaps\\.(printEvent|summary|trackSkip)","#ensures#(one_outcome|nocall|replay|mismatch|missing_ro|invalid|matcher_errors)","#vacuity"],
 "explanation":"Exactly one outcome per call: postcondition one_outcome of every match* body over the ghost counters of the testingT (Error/Log calls) and the event counters, on every path; handleError is one Error plus one register(erred); register increments exactly one counter under its mutex. The summary half of the statement is not yet under contract."}
cleanf=["snaps.isNumber","snaps.getTestID","snaps.snapshotOccurrenceFMT","snaps.standaloneOccurrenceFMT","snaps.naturalSort","snaps.set.Has","snaps.occurrences","snaps.examineFiles","snaps.removeSnapshot","snaps.overwriteFile","snaps.examineSnaps","snaps.Clean"]
skipf=["snaps.(*syncSlice).append","snaps.trackSkip","snaps.Skip","snaps.Skipf","snaps.SkipNow","snaps.testSkipped","snaps.isFileSkipped"]
P["C07"]={"level":"proof","design_ref":"6 C07",
 "funcs":registry+standalone[2:]+cleanf,
 "only":["#ensures#(count|cleanup|covers|last|protected|content_kept|obsolete_sound|used_sound|registered_files_kept|nonsnap|only_used)","snaps\\.(occurrences|examineFiles|set\\.Has|snapshotOccurrenceFMT|standaloneOccurrenceFMT)#","no_drop_without_update","#vacuity"],
 "assumptions":["-test.count >= 1 whenever a registry is non-empty (precondition testCount() >= 1 of Clean)","H_det for -count>1: every execution of a test makes the same number of calls on a file (without it: known finding K6)","test names start with `Test` (without it: known finding K5)"],
 "explanation":"Every slot handed out by a registry is counted in cleanup (registry contracts); occurrences(cleanup, count, fmt) contains fmt(id,k) for every k in 1..cleanup[id]/count (loop invariants over the map range), so with -count=1 every addressed slot is registered; examineFiles never removes or lists a path that is a registry key or a registered standalone file (postconditions protected, obsolete_sound), examineSnaps reports an id only if it is not registered (by construction of the branch) and drops entries only under update (no_drop_without_update). Not yet decided by contracts: that a rewrite preserves the bodies of the surviving entries (C10)."}
P["C08"]={"level":"other","design_ref":"6 C08",
 "funcs":skipf+["snaps.examineSnaps","snaps.examineFiles"],
 "only":["snaps\\.(\\(\\*syncSlice\\)\\.append|trackSkip|Skip|Skipf|SkipNow|testSkipped|isFileSkipped)#","#vacuity"],
 "assumptions":["the -run clause of the statement has no contract-level oracle (regular-expression semantics of the test runner): reMatch is uninterpreted; findings F5, K3, K4, K7 of DESIGN 7.2 concern it and are not decided by this check"],
 "explanation":"Decided by contracts: the skip-wrapper clause. Skip/Skipf/SkipNow record t.Name() before delegating (list append contract), testSkipped returns true for exactly the recorded names and their descendants name+\"/\"... (postconditions skip_protects and only_skip_or_filter with desc(t,s) := t==s or s+\"/\" is a prefix of t, proved in native strings: a sibling sharing a prefix is not protected), and examineSnaps neither reports nor drops an entry for which testSkipped holds (branch condition). Files of skipped tests are not protected (known finding K9). The -run clause is NOT decided (no bounded stand-in built yet)."}
P["C09"]={"level":"proof","design_ref":"6 C09",
 "funcs":cleanf,
 "only":["snaps\\.(examineFiles|examineSnaps|Clean|removeSnapshot|overwriteFile)#","#vacuity"],
 "assumptions":["completeness of the report (every stale file of a visited directory is listed) depends on os.ReadDir returning the whole directory: not modelled"],
 "explanation":"Clean deletes only in clean mode and touches nothing else: examineFiles removes a path only under shouldUpdate, only if it is unaddressed and has .snap in its base name, and never changes file contents (postconditions protected, report_only, content_kept); examineSnaps writes only files of the used list, nothing at all when neither update nor sort is set (noop, only_used), and drops a stale entry from a rewritten file only under update (loop invariant no_drop_without_update; finding F6 fixed); Clean passes shouldClean&&!isCI and Sort&&!isCI (ci_readonly, report_only, no_sort_no_clean, registered_files_kept, non_snap_files_kept)."}
P["C10"]={"level":"other","design_ref":"6 C10",
 "funcs":["snaps.examineSnaps","snaps.naturalSort","snaps.getTestID","snaps.isNumber","snaps.removeSnapshot","snaps.overwriteFile"],
 "only":["snaps\\.(naturalSort|getTestID|isNumber|removeSnapshot|overwriteFile)#","#ensures#(noop|only_used)","no_drop_without_update","#vacuity"],
 "assumptions":["slices.SortFunc returns a sorted permutation (assumed)"],
 "explanation":"Decided so far: files needing neither pruning nor sorting are not written (postcondition noop), headers are recognised exactly by the [Test... - digits] shape (getTestID/isNumber against isTestHdr in native strings, including the slice-bounds obligation), entries are dropped only under update. NOT yet decided by contracts: that every surviving entry replays the value it held before (content equality of the rewrite), the permutation/ordering clause and idempotence; known finding K5."}
P["C11"]={"level":"proof","design_ref":"6 C11",
 "funcs":["snaps.baseCaller","snaps.constructFilename","snaps.snapshotPath","snaps.(*syncStandaloneRegistry).getTestID","snaps.MatchStandaloneJSON","snaps.(*Config).MatchStandaloneJSON"]+bodies,
 "only":["snaps\\.(baseCaller|constructFilename|snapshotPath)#","getTestID#ensures","#ensures#(created|ordinal)","#pre\\(matchStandaloneJSON\\)","#vacuity"],
 "assumptions":["path/filepath functions are uninterpreted pure functions (path cleaning not modelled)","runtime.Caller/FuncForPC give an abstract stack; real stacks (inlining, -trimpath file names, module depth, working directory) are not decided","names without `%` (known finding K8)"],
 "explanation":"constructFilename and snapshotPath equal the path formula of the statement (proved in native SMT strings: Filename or test-file base name without extension, or the test name with / replaced by _ plus _%d for standalone, then .snap and Ext; directory = Dir if absolute or -trimpath, else the caller's directory joined with Dir); they read only the Config, the test name and the caller file. baseCaller returns the file of the first frame ending in _test.go above the skipped frames, or the frame below testing.tRunner, independent of how many other frames lie in between (loop invariant over an abstract stack). The standalone registry substitutes the ordinal into the template; the exported MatchStandaloneJSON wrappers default Ext to .json without touching the Config."}
json.dump(P,open('/verif/contracts/properties.json','w'),indent=1)
na={
 "C14":"in progress",
 "C15":"in progress",
 "C16":"in progress",
 "C18":"in progress",
}
json.dump({k:v for k,v in na.items() if k not in P},open('/verif/not_applicable.json','w'),indent=1)
print(sorted(P))
