#!/usr/bin/env python3
"""Generates the contracts of the five match* bodies (they share one shape) into /repo/snaps/zz_contracts_verif.go
between the markers BEGIN-GENERATED-MATCH / END-GENERATED-MATCH. The output is plain //@ text; nothing executable."""
import re,sys

COMMON_REQ = '''//@   requires c != nil && t != nil
//@   requires testEvents != nil && testEvents.items != nil
//@   requires held[_m] == 0 && held[testEvents.Mutex] == 0
//@   requires isLine(tname(t)) && !quiescent
//@   let mayCreate = !isCI && (c.update == nil || *c.update)
//@   let mayUpdate = !isCI && ((c.update != nil && *c.update) || (c.update == nil && updateVAR == "true"))
//@   let dErr = nErr[t] - old(nErr[t])
//@   let dLog = nLog[t] - old(nLog[t])
//@   let dFail = testEvents.items[erred] - old(testEvents.items[erred])
//@   let dAdd = testEvents.items[added] - old(testEvents.items[added])
//@   let dUpd = testEvents.items[updated] - old(testEvents.items[updated])
//@   let dPass = testEvents.items[passed] - old(testEvents.items[passed])
//@   let failed = dErr == 1 && dLog == 0 && dFail == 1 && dAdd == 0 && dUpd == 0 && dPass == 0
//@   let nowrite = fswrites == old(fswrites) && fsc[sp] == old(fsc[sp]) && fsx[sp] == old(fsx[sp])
'''
MULTI_REG = '''//@   requires testsRegistry != nil && testsRegistry.running != nil && testsRegistry.cleanup != nil && testsRegistry.running != testsRegistry.cleanup
//@   requires held[testsRegistry.Mutex] == 0
//@   requires testsRegistry.Mutex != testEvents.Mutex && testsRegistry.Mutex != _m && testEvents.Mutex != _m
//@   let sp = snapPathSpec(c.snapsDir, c.filename, c.extension, tname(t), false, isTrimBathBuild, baseCaller(3))
//@   requires has(testsRegistry.running, sp) == has(testsRegistry.cleanup, sp)
//@   requires has(testsRegistry.running, sp) ==> testsRegistry.running[sp] != nil && testsRegistry.cleanup[sp] != nil && testsRegistry.running[sp] != testsRegistry.cleanup[sp]
//@   requires fsguard[sp] == _m
//@   let k = old(testsRegistry.running[sp][tname(t)]) + 1
//@   let id = fmtID(tname(t), k)
//@   let F = old(fsc[sp])
//@   let hit = old(fsx[sp]) && found(old(fsc[sp]), id)
//@   let stored = body(F, id)
//@   let Fx = old(fsx[sp]) ? old(fsc[sp]) : ""
//@   let ordinalTaken = testsRegistry.running[sp][tname(t)] == k && testsRegistry.cleanup[sp][tname(t)] == old(testsRegistry.cleanup[sp][tname(t)]) + 1
'''
MULTI_ASSIGNS = '''//@   assigns nErr[t], lastErr[t], nLog[t], lastLog[t], nCleanup[t], lastCleanup[t]
//@   assigns testEvents.items[erred], testEvents.items[added], testEvents.items[updated], testEvents.items[passed]
//@   assigns testsRegistry.running[sp], testsRegistry.cleanup[sp], testsRegistry.running[sp][tname(t)], testsRegistry.cleanup[sp][tname(t)]
//@   assigns fsx[sp], fsc[sp], fsdir, fswrites, alloc, nDelPrinted, nInsPrinted, delText, insText
'''
def outcome(pre):
    return f'''//@   ensures [one_outcome] {pre} ==>
//@        failed
//@     || (dErr == 0 && dLog == 1 && lastLog[t] == box(addedMsg) && dFail == 0 && dAdd == 1 && dUpd == 0 && dPass == 0)
//@     || (dErr == 0 && dLog == 1 && lastLog[t] == box(updatedMsg) && dFail == 0 && dAdd == 0 && dUpd == 1 && dPass == 0)
//@     || (dErr == 0 && dLog == 0 && dFail == 0 && dAdd == 0 && dUpd == 0 && dPass == 1)
'''
def multi_tail(pre, ok, cmpnote):
    # pre: "called" guard; ok: condition that input validation and matchers succeeded
    return f'''//@   ensures [ordinal] {pre} ==> ordinalTaken
{outcome(pre)}//@   ensures [replay] {pre} && {ok} && hit && stored == snap ==> dPass == 1 && dErr == 0 && dLog == 0 && nowrite && fsx[sp]
//@   ensures [mismatch] {pre} && {ok} && hit && stored != snap && {cmpnote} !mayUpdate ==> failed && nowrite
//@   ensures [missing_ro] {pre} && {ok} && !hit && !mayCreate ==> failed && nowrite
//@   ensures [ci] isCI ==> nowrite && dAdd == 0 && dUpd == 0
//@   ensures [created] {pre} && dAdd == 1 ==> {ok} && !hit && mayCreate && fsx[sp] && fsc[sp] == (old(fsx[sp]) ? F : "") + "\\n" + id + "\\n" + snap + "\\n---\\n"
//@   ensures [updated] {pre} && dUpd == 1 ==> {ok} && hit && mayUpdate && stored != snap
//@   ensures [equal_nowrite] {pre} && {ok} && hit && stored == snap ==> nowrite
//@   ensures [created_lookup] {pre} && dAdd == 1 && wf(Fx) && noEND(snap) ==> found(fsc[sp], id) && body(fsc[sp], id) == snap && wf(fsc[sp])
//@   ensures [created_others] {pre} && dAdd == 1 && wf(Fx) ==> (forall id2 Str: id2 != id && id2 != "" && id2 != "---" && lacks(snap, id2) ==> found(fsc[sp], id2) == found(Fx, id2) && (found(Fx, id2) ==> body(fsc[sp], id2) == body(Fx, id2)))
//@   ensures [updated_lookup] {pre} && dUpd == 1 && uniqueHdr(F, id) && noEND(snap) ==> updShape(F, id, snap, fsc[sp]) && found(fsc[sp], id) && body(fsc[sp], id) == snap && (wf(F) ==> wf(fsc[sp]))
//@   ensures [updated_others] {pre} && dUpd == 1 && uniqueHdr(F, id) && wf(F) ==> (forall id2 Str: id2 != id && id2 != "---" && lacks(snap, id2) && lacks(stored, id2) ==> found(fsc[sp], id2) == found(F, id2) && (found(F, id2) && apart(F, id, id2) ==> body(fsc[sp], id2) == body(F, id2)))
//@   ensures [locks] held[_m] == 0 && held[testsRegistry.Mutex] == 0 && held[testEvents.Mutex] == 0
'''
CLEANUP_MULTI = '''//@ func {name}$1()
//@   mode ctl
//@   requires testsRegistry != nil && testsRegistry.running != nil && held[testsRegistry.Mutex] == 0
//@   requires has(testsRegistry.running, snapPath) && testsRegistry.running[snapPath] != nil
//@   assigns testsRegistry.running[snapPath][tname(t)]
//@   ensures testsRegistry.running[snapPath][tname(t)] == 0
//@   ensures held[testsRegistry.Mutex] == 0
//@
'''
CONFIG_IMM = """//@   ensures [config_immutable] (forall r Ref: old(alloc)[r] ==> heap(Config.filename)[r] == old(heap(Config.filename))[r] && heap(Config.snapsDir)[r] == old(heap(Config.snapsDir))[r] && heap(Config.extension)[r] == old(heap(Config.extension))[r] && heap(Config.update)[r] == old(heap(Config.update))[r] && heap(Config.json)[r] == old(heap(Config.json))[r])
//@   ensures [config_pointees] (c.update != nil ==> *c.update == old(*c.update)) && (c.json != nil ==> c.json.Width == old(c.json.Width) && c.json.Indent == old(c.json.Indent) && c.json.SortKeys == old(c.json.SortKeys))
"""
out=[]
wrappers=[]
def emit(header, body, wr):
    """header: '//@ func name(params)' lines incl. mode/dead; body: rest. wr: list of (wrapper header, let-c line or '')"""
    out.append(header+body+CONFIG_IMM+'//@\n')
    for wh, letc in wr:
        b = body
        wrappers.append(wh+'//@   mode ctl\n'+letc+b+CONFIG_IMM+'//@\n')
# ---- matchSnapshot
out.append(CLEANUP_MULTI.format(name='matchSnapshot'))
emit('''//@ func matchSnapshot(c, t, values)
//@   mode ctl
//@   dead ret5
''', COMMON_REQ+MULTI_REG+'''//@   let snap = takeSnapshot(values)
'''+MULTI_ASSIGNS+'''//@   ensures [nocall] len(values) == 0 ==> dErr == 0 && dLog == 1 && nowrite && dFail == 0 && dAdd == 0 && dUpd == 0 && dPass == 0
'''+multi_tail('len(values) > 0','true','noEND(stored) &&'),
 [('//@ func MatchSnapshot(t, values)\n','//@   let c = defaultConfig\n'),('//@ func (*Config).MatchSnapshot(c, t, values)\n','')])
# ---- matchJSON
out.append(CLEANUP_MULTI.format(name='matchJSON'))
emit('''//@ func matchJSON(c, t, input, matchers)
//@   mode ctl
//@   dead ret6
//@   loop 1 invariant forall r Ref: old(alloc)[r] ==> wbuf[r] == old(wbuf)[r]
''', COMMON_REQ+MULTI_REG+'''//@   let valid = vjErrOf(input) == nil
//@   let doc = applyJ(vjBytesOf(input), arr(matchers), len(matchers))
//@   let nme = nerrJ(vjBytesOf(input), arr(matchers), len(matchers))
//@   let okIn = valid && nme == 0
//@   let snap = jsonSnapOf(doc, c.json == nil, c.json.Width, c.json.Indent, c.json.SortKeys)
'''+MULTI_ASSIGNS+'''//@   ensures [invalid] !valid ==> failed && nowrite && ordinalTaken
//@   ensures [matcher_errors] valid && nme > 0 ==> failed && nowrite && ordinalTaken
'''+multi_tail('true','okIn',''),
 [('//@ func MatchJSON(t, input, matchers)\n','//@   let c = defaultConfig\n'),('//@ func (*Config).MatchJSON(c, t, input, matchers)\n','')])
# ---- matchYAML
out.append(CLEANUP_MULTI.format(name='matchYAML'))
emit('''//@ func matchYAML(c, t, input, matchers)
//@   mode ctl
//@   dead ret6
//@   loop 1 invariant forall r Ref: old(alloc)[r] ==> wbuf[r] == old(wbuf)[r]
''', COMMON_REQ+MULTI_REG+'''//@   let valid = vyOK(input)
//@   let doc = applyY(vyBytesOf(input), arr(matchers), len(matchers))
//@   let nme = nerrY(vyBytesOf(input), arr(matchers), len(matchers))
//@   let okIn = valid && nme == 0
//@   let snap = esc(doc)
'''+MULTI_ASSIGNS+'''//@   ensures [invalid] !valid ==> failed && nowrite && ordinalTaken
//@   ensures [matcher_errors] valid && nme > 0 ==> failed && nowrite && ordinalTaken
'''+multi_tail('true','okIn','noEND(stored) &&'),
 [('//@ func MatchYAML(t, input, matchers)\n','//@   let c = defaultConfig\n'),('//@ func (*Config).MatchYAML(c, t, input, matchers)\n','')])

# ---- standalone
STANDALONE_REG = '''//@   requires standaloneTestsRegistry != nil && standaloneTestsRegistry.running != nil && standaloneTestsRegistry.cleanup != nil && standaloneTestsRegistry.running != standaloneTestsRegistry.cleanup
//@   requires held[standaloneTestsRegistry.Mutex] == 0
//@   requires standaloneTestsRegistry.Mutex != testEvents.Mutex
//@   let gp = snapPathSpec(c.snapsDir, c.filename, {ext}, tname(t), true, isTrimBathBuild, baseCaller(3))
//@   let k = old(standaloneTestsRegistry.running[gp]) + 1
//@   let sp = ordPath(gp, k)
//@   requires fsguard[sp] == nil
//@   let hit = old(fsx[sp])
//@   let stored = old(fsc[sp])
//@   let ordinalTaken = standaloneTestsRegistry.running[gp] == k && standaloneTestsRegistry.cleanup[gp] == old(standaloneTestsRegistry.cleanup[gp]) + 1
'''
STANDALONE_ASSIGNS = '''//@   assigns nErr[t], lastErr[t], nLog[t], lastLog[t], nCleanup[t], lastCleanup[t]
//@   assigns testEvents.items[erred], testEvents.items[added], testEvents.items[updated], testEvents.items[passed]
//@   assigns standaloneTestsRegistry.running[gp], standaloneTestsRegistry.cleanup[gp]
//@   assigns fsx[sp], fsc[sp], fsdir, fswrites, alloc, nDelPrinted, nInsPrinted, delText, insText
'''
def standalone_tail(ok):
    return f'''//@   ensures [ordinal] ordinalTaken
{outcome('true')}//@   ensures [replay] {ok} && hit && stored == snap ==> dPass == 1 && dErr == 0 && dLog == 0 && nowrite
//@   ensures [mismatch] {ok} && hit && stored != snap && !mayUpdate ==> failed && nowrite
//@   ensures [missing_ro] {ok} && !hit && !mayCreate ==> failed && nowrite
//@   ensures [ci] isCI ==> nowrite && dAdd == 0 && dUpd == 0
//@   ensures [created] dAdd == 1 ==> {ok} && !hit && mayCreate && fsx[sp] && fsc[sp] == snap
//@   ensures [updated] dUpd == 1 ==> {ok} && hit && mayUpdate && stored != snap && fsx[sp] && fsc[sp] == snap
//@   ensures [locks] held[standaloneTestsRegistry.Mutex] == 0 && held[testEvents.Mutex] == 0
'''
CLEANUP_ST = '''//@ func {name}$1()
//@   mode ctl
//@   requires standaloneTestsRegistry != nil && standaloneTestsRegistry.running != nil && held[standaloneTestsRegistry.Mutex] == 0
//@   assigns standaloneTestsRegistry.running[genericPathSnap]
//@   ensures standaloneTestsRegistry.running[genericPathSnap] == 0
//@   ensures held[standaloneTestsRegistry.Mutex] == 0
//@
'''
out.append(CLEANUP_ST.format(name='matchStandaloneSnapshot'))
emit('''//@ func matchStandaloneSnapshot(c, t, input)
//@   mode ctl
//@   dead ret4
''', COMMON_REQ+STANDALONE_REG.format(ext='c.extension')+'''//@   let snap = krSprint(input)
'''+STANDALONE_ASSIGNS+standalone_tail('true'),
 [('//@ func MatchStandaloneSnapshot(t, input)\n','//@   let c = defaultConfig\n'),('//@ func (*Config).MatchStandaloneSnapshot(c, t, input)\n','')])
out.append(CLEANUP_ST.format(name='matchStandaloneJSON'))
SJ_BODY = (COMMON_REQ+STANDALONE_REG.format(ext='c.extension')+'''//@   let valid = vjErrOf(input) == nil
//@   let doc = applyJ(vjBytesOf(input), arr(matchers), len(matchers))
//@   let nme = nerrJ(vjBytesOf(input), arr(matchers), len(matchers))
//@   let okIn = valid && nme == 0
//@   let snap = jsonSnapOf(doc, c.json == nil, c.json.Width, c.json.Indent, c.json.SortKeys)
'''+STANDALONE_ASSIGNS+'''//@   ensures [invalid] !valid ==> failed && nowrite && ordinalTaken
//@   ensures [matcher_errors] valid && nme > 0 ==> failed && nowrite && ordinalTaken
'''+standalone_tail('okIn'))
out.append('''//@ func matchStandaloneJSON(c, t, input, matchers)
//@   mode ctl
//@   dead ret6
//@   loop 1 invariant forall r Ref: old(alloc)[r] ==> wbuf[r] == old(wbuf)[r]
'''+SJ_BODY+CONFIG_IMM+'//@\n')
# exported wrappers of the standalone JSON matcher default the extension to .json (on a copy of the Config)
SJ_WR = SJ_BODY.replace("snapPathSpec(c.snapsDir, c.filename, c.extension,", "snapPathSpec(c.snapsDir, c.filename, (c.extension == \"\" ? \".json\" : c.extension),")
wrappers.append('//@ func MatchStandaloneJSON(t, input, matchers)\n//@   mode ctl\n//@   let c = defaultConfig\n'+SJ_WR+CONFIG_IMM+'//@\n')
wrappers.append('//@ func (*Config).MatchStandaloneJSON(c, t, input, matchers)\n//@   mode ctl\n'+SJ_WR+CONFIG_IMM+'//@\n')

path='/repo/snaps/zz_contracts_verif.go'
s=open(path).read()
B='// BEGIN-GENERATED-MATCH (tools/gen_match_contracts.py)\n'; E='// END-GENERATED-MATCH\n'
block=B+''.join(out)+'// ---- exported entry points (same contracts as the bodies they wrap) ----\n'+''.join(wrappers)+E
if B in s:
    s=s[:s.index(B)]+block+s[s.index(E)+len(E):]
else:
    s=s+'\n'+block
open(path,'w').write(s)
print("generated",len(block),"bytes")
