package main

import (
	"fmt"
	"os"
	"sync"
	"time"
)

// runObligations discharges all obligations in parallel.
func runObligations(p *Prelude, obls []*Obligation, timeout int, thorough bool) {
	var wg sync.WaitGroup
	sem := make(chan struct{}, 12)
	for _, o := range obls {
		wg.Add(1)
		go func(o *Obligation) {
			defer wg.Done()
			sem <- struct{}{}
			defer func() { <-sem }()
			t0 := time.Now()
			q := p.buildQuery(o, false, 0)
			bt := time.Since(t0).Seconds()
			o.Res = solve(q, o.Mode, timeout, thorough, o.ExpectSat)
			if os.Getenv("GOVC_TIMING") != "" {
				fmt.Fprintf(os.Stderr, "TIMING build=%.3f solve=%.3f size=%d %s\n", bt, time.Since(t0).Seconds()-bt, len(q), o.Name)
			}
		}(o)
	}
	wg.Wait()
	// A time-out in the parallel batch can be an artefact of contention (several thousand queries share the cores,
	// other processes may run on the machine). Obligations that ended in a time-out - never those answered sat or
	// unknown - are solved once more, one at a time, with the same budget per solver. At most retryCap of them, so that a
	// tree that really breaks many obligations is not held up.
	const retryCap = 6
	n := 0
	for _, o := range obls {
		if o.Res == nil || o.ExpectSat || o.Res.Status != "timeout" || o.Canary != "" {
			continue
		}
		if n >= retryCap {
			break
		}
		n++
		first := o.Res
		q := p.buildQuery(o, false, 0)
		o.Res = solve(q, o.Mode, timeout, thorough, o.ExpectSat)
		o.Res.Seconds += first.Seconds
		o.Retried = true
	}
}
