package main

import (
	"fmt"
	"os"
	"sync"
	"time"
)

// runObligations discharges all obligations in parallel.
func runObligations(p *Prelude, obls []*Obligation, timeout int, thorough bool) {
	var wg sync.WaitGroup
	sem := make(chan struct{}, 12)
	for _, o := range obls {
		wg.Add(1)
		go func(o *Obligation) {
			defer wg.Done()
			sem <- struct{}{}
			defer func() { <-sem }()
			t0 := time.Now()
			q := p.buildQuery(o, false, 0)
			bt := time.Since(t0).Seconds()
			o.Res = solve(q, o.Mode, timeout, thorough, o.ExpectSat)
			if os.Getenv("GOVC_TIMING") != "" {
				fmt.Fprintf(os.Stderr, "TIMING build=%.3f solve=%.3f size=%d %s\n", bt, time.Since(t0).Seconds()-bt, len(q), o.Name)
			}
		}(o)
	}
	wg.Wait()
}
