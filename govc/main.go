package main

import (
	"fmt"
	"golang.org/x/tools/go/packages"
)

func main() {
	cfg := &packages.Config{Mode: packages.LoadAllSyntax &^ packages.NeedDeps | packages.NeedDeps, Dir: "/repo", BuildFlags: []string{"-tags=verif"}}
	pkgs, err := packages.Load(cfg, "./snaps")
	fmt.Println(len(pkgs), err)
}
