package main

import (
	"encoding/json"
	"flag"
	"fmt"
	"os"
	"path/filepath"
	"sort"
	"strings"
)

var (
	repoDir  = "/repo"
	verifDir = "/verif"
	// outDir: where evidence and replay files go. The registered checks always use /repo and /verif; the two
	// environment overrides exist only for the tooling that runs seeded changes and mutants on scratch copies in parallel.
	outDir = "/verif"
)

func init() {
	if d := os.Getenv("GOVC_REPO"); d != "" {
		repoDir = d
	}
	if d := os.Getenv("GOVC_OUT"); d != "" {
		outDir = d
	}
}

func specFiles() []string {
	fs, _ := filepath.Glob(filepath.Join(verifDir, "contracts", "*.spec"))
	sort.Strings(fs)
	return fs
}

func main() {
	if len(os.Args) < 2 {
		fmt.Fprintln(os.Stderr, "usage: govc <check|verify|list|selfcheck> ...")
		os.Exit(2)
	}
	defer cleanupWorkDir()
	switch os.Args[1] {
	case "verify":
		fs := flag.NewFlagSet("verify", flag.ExitOnError)
		fn := fs.String("func", "", "function contract name (comma separated) or 'all'")
		lemma := fs.String("lemma", "", "lemma name")
		dump := fs.Bool("dump", false, "dump SMT queries of failed obligations")
		dumpAll := fs.String("dump-obl", "", "dump the SMT query of the named obligation (substring)")
		timeout := fs.Int("timeout", 10, "per-solver timeout (s)")
		fs.Parse(os.Args[2:])
		code := cmdVerify(*fn, *lemma, *dump, *dumpAll, *timeout)
		cleanupWorkDir()
		os.Exit(code)
	case "check":
		fs := flag.NewFlagSet("check", flag.ExitOnError)
		prop := fs.String("property", "", "property id")
		tier := fs.String("tier", "quick", "quick|thorough")
		fs.Parse(os.Args[2:])
		code := cmdCheck(*prop, *tier)
		cleanupWorkDir()
		os.Exit(code)
	case "replay":
		if len(os.Args) < 3 {
			fmt.Fprintln(os.Stderr, "usage: govc replay <replay file>")
			os.Exit(2)
		}
		code := cmdReplay(os.Args[2])
		cleanupWorkDir()
		os.Exit(code)
	case "list":
		u, err := loadUniverse(repoDir, specFiles())
		if err != nil {
			fmt.Fprintln(os.Stderr, err)
			os.Exit(2)
		}
		var names []string
		for n := range u.Funcs {
			names = append(names, n)
		}
		sort.Strings(names)
		for _, n := range names {
			mark := " "
			if _, ok := u.Specs.Contracts[n]; ok {
				mark = "*"
			}
			fmt.Printf("%s %s (%s:%d)\n", mark, n, u.Funcs[n].File, u.Funcs[n].Line)
		}
	default:
		fmt.Fprintln(os.Stderr, "unknown command", os.Args[1])
		os.Exit(2)
	}
}

func cmdVerify(fn, lemma string, dump bool, dumpObl string, timeout int) int {
	u, err := loadUniverse(repoDir, specFiles())
	if err != nil {
		fmt.Fprintln(os.Stderr, "load:", err)
		return 2
	}
	p, err := buildPrelude(u)
	if err != nil {
		fmt.Fprintln(os.Stderr, err)
		return 2
	}
	var obls []*Obligation
	var names []string
	if fn == "all" {
		for n, c := range u.Specs.Contracts {
			if _, ok := u.Funcs[n]; ok && !c.Trusted && !c.NoBody {
				names = append(names, n)
			}
		}
		sort.Strings(names)
	} else if fn != "" {
		names = strings.Split(fn, ",")
	}
	bad := 0
	for _, n := range names {
		fi := u.Funcs[n]
		c := u.Specs.Contracts[n]
		if fi == nil || c == nil {
			fmt.Printf("ERROR %s: function or contract not found\n", n)
			bad++
			continue
		}
		os_, x, err := verifyFunction(u, fi, c)
		if err != nil {
			fmt.Printf("ERROR %s: %v\n", n, err)
			bad++
			continue
		}
		fmt.Printf("== %s: %d obligations (stmts seen %d lowered %d)\n", n, len(os_), x.stmtsSeen, x.stmtsLowered)
		obls = append(obls, os_...)
	}
	if lemma != "" {
		for li, l := range u.Specs.Lemmas {
			if !l.Axiom && (lemma == "all" || l.Name == lemma) {
				o, err := lemmaObligation(u, p, l, li)
				if err != nil {
					fmt.Printf("ERROR lemma %s: %v\n", l.Name, err)
					bad++
					continue
				}
				obls = append(obls, o)
				if v := lemmaVacuity(o, l); v != nil {
					obls = append(obls, v)
				}
			}
		}
	}
	runObligations(p, obls, timeout, false)
	for _, o := range obls {
		ok := obligationOK(o)
		status := "ok  "
		if !ok {
			status = "FAIL"
			bad++
		}
		fmt.Printf("%s %-8s %-7s %5.2fs %s\n", status, o.Res.Status, o.Res.Solver, o.Res.Seconds, o.Name)
		if !ok && o.Text != "" {
			fmt.Printf("       %s  [%s]\n", o.Text, o.Pos)
		}
		if (!ok && dump) || (dumpObl != "" && strings.Contains(o.Name, dumpObl)) {
			fmt.Println(o.Res.Query)
			fmt.Println(firstLines(o.Res.Output, 60))
			if o.Res.Status == "sat" {
				q := p.buildQuery(o, true, 0)
				r := solve(q, o.Mode, timeout, false, false)
				fmt.Println("MODEL:", r.Output)
			}
			for k, v := range o.Res.Detail {
				fmt.Printf("   %s: %s\n", k, v)
			}
		}
	}
	if bad > 0 {
		return 1
	}
	return 0
}

func obligationOK(o *Obligation) bool {
	if o.ExpectSat {
		return o.Res.Status != "unsat" && o.Res.Status != "error"
	}
	return o.Res.Status == "unsat"
}

// lemmaVacuity: the hypotheses of a lemma must be satisfiable together with the axioms (a lemma whose
// hypotheses are contradictory proves nothing and hides mistakes in definitions).
func lemmaVacuity(o *Obligation, l *Lemma) *Obligation {
	if len(o.Hyps) == 0 || l.Canary != "" {
		return nil
	}
	return &Obligation{Func: o.Func, Name: o.Name + "#vacuity", Kind: "vacuity", Hyps: append([]*Term(nil), o.Hyps...), Goal: False, Mode: o.Mode, ExpectSat: true,
		Text: "hypotheses of the lemma are satisfiable", Pos: o.Pos, LemmaIndex: o.LemmaIndex}
}

func lemmaObligation(u *Universe, p *Prelude, l *Lemma, idx int) (o *Obligation, err error) {
	defer func() {
		if r := recover(); r != nil {
			if us, ok := r.(unsupported); ok {
				err = fmt.Errorf("%s", us.msg)
				return
			}
			panic(r)
		}
	}()
	st := &State{st: map[string]*Term{}, pseudo: map[string]*Term{}}
	env := &TrEnv{x: p.gx, st: st, bound: map[string]*Term{}, lets: map[string]*Term{}}
	env.old = env
	if l.Pkg != "" {
		if pk, ok := u.Pkgs[l.Pkg]; ok {
			env.pkg = pk.Types
		}
	}
	t := p.gx.trBool(l.Expr, env)
	mode := l.Mode
	if mode == "" {
		mode = "ctl"
	}
	// skolemise the outer universal quantifier and move hypotheses out of the goal
	var hyps []*Term
	for t.Op == "forall" {
		m := map[string]*Term{}
		for _, b := range t.Bind {
			m[b.Op] = V("sk."+b.Op, b.Sort)
		}
		t = subst(t.Args[0], m)
		for t.Op == "=>" {
			hyps = append(hyps, t.Args[0])
			t = t.Args[1]
		}
	}
	return &Obligation{Func: "lemma." + l.Name, Name: "lemma." + l.Name, Kind: "lemma", Hyps: hyps, Goal: t, Mode: mode, Text: l.Text, Pos: l.Pos, Props: l.Props, Canary: l.Canary, LemmaIndex: idx}, nil
}


// cmdReplay re-examines one reported violation against the CURRENT tree of /repo:
//   - a replay file with a generated Go test (confirmed failing input) runs that test again and shows what the real
//     code returns now;
//   - a bounded case names the stand-in to run;
//   - otherwise the named obligation is generated and solved again.
// Exit 1 if the violation is still there, 0 if it is gone.
func cmdReplay(path string) int {
	data, err := os.ReadFile(path)
	if err != nil {
		fmt.Fprintln(os.Stderr, err)
		return 2
	}
	var r map[string]any
	if err := json.Unmarshal(data, &r); err != nil {
		fmt.Fprintln(os.Stderr, err)
		return 2
	}
	obl, _ := r["obligation"].(string)
	fmt.Printf("property   %v\nobligation %s\nclause     %v\n", r["property"], obl, r["clause"])
	if in, ok := r["inputs"]; ok {
		b, _ := json.Marshal(in)
		fmt.Printf("inputs     %s\n", b)
	}
	if out, ok := r["real_outputs"]; ok {
		b, _ := json.Marshal(out)
		fmt.Printf("real code returned (when the violation was reported) %s\n", b)
	}
	if src, ok := r["go_test"].(string); ok && src != "" {
		pkg, _ := r["go_test_pkg"].(string)
		if pkg == "" {
			pkg = "snaps"
		}
		tf := filepath.Join(ensureWorkDir(), "replay_again_test.go")
		os.WriteFile(tf, []byte(src), 0o644)
		out, _ := goTestOverlay(tf, pkg, "^TestVerifReplay$", 60, nil)
		fmt.Println("--- the generated test on the current tree:")
		for _, l := range strings.Split(out, "\n") {
			if strings.HasPrefix(l, "REPLAY-") {
				fmt.Println(l)
			}
		}
	}
	if strings.HasPrefix(obl, "bounded:") {
		fmt.Printf("bounded case: %v\nre-run with: %v\n", r["case"], r["replay_cmd"])
		return 1
	}
	fn := obl
	if i := strings.Index(obl, "#"); i >= 0 {
		fn = obl[:i]
	}
	if strings.HasPrefix(obl, "lemma.") {
		return cmdVerify("", strings.TrimPrefix(strings.SplitN(obl, "#", 2)[0], "lemma."), false, "", 20)
	}
	fmt.Println("--- the obligation on the current tree:")
	u, err := loadUniverse(repoDir, specFiles())
	if err != nil {
		fmt.Fprintln(os.Stderr, "load:", err)
		return 2
	}
	p, err := buildPrelude(u)
	if err != nil {
		fmt.Fprintln(os.Stderr, err)
		return 2
	}
	fi, c := u.Funcs[fn], u.Specs.Contracts[fn]
	if fi == nil || c == nil {
		fmt.Printf("function or contract %s not found (stale contract)\n", fn)
		return 1
	}
	os_, _, err := verifyFunction(u, fi, c)
	if err != nil {
		fmt.Printf("%s: %v\n", fn, err)
		return 1
	}
	var sel []*Obligation
	for _, o := range os_ {
		if o.Name == obl {
			sel = append(sel, o)
		}
	}
	if len(sel) == 0 {
		fmt.Println("the obligation no longer exists under this name (the function or its contract changed)")
		return 1
	}
	runObligations(p, sel, 20, false)
	code := 0
	for _, o := range sel {
		ok := obligationOK(o)
		fmt.Printf("%s: %s (%s)\n", o.Name, o.Res.Status, map[bool]string{true: "discharged", false: "STILL FAILING"}[ok])
		if !ok {
			code = 1
		}
	}
	return code
}
