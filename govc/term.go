package main

import (
	"fmt"
	"go/types"
	"sort"
	"strconv"
	"strings"
)

// Term is an SMT term. Sort is the SMT sort name in our internal vocabulary
// ("Int", "Bool", "Str", "Ref", "Err", "Any", "(Array Int Str)", "Slice_Str", ...).
// "Str" is printed as the native String sort in mode str, and as an
// uninterpreted sort otherwise.
type Term struct {
	Op   string
	Args []*Term
	Sort string
	// quantifiers
	Bind []*Term // bound variables (Op = name, Sort = sort)
	Pats [][]*Term
	// string literal payload when Op == "strlit"
	Lit string
	// optional Go type (used to resolve selectors / map reads in spec expressions)
	GoType types.Type
}

const (
	SInt  = "Int"
	SBool = "Bool"
	SStr  = "Str"
	SRef  = "Ref"
	SErr  = "Err"
	SAny  = "Any"
	SType = "GoType"
	SFn   = "Fn"
)

func arraySort(k, v string) string { return "(Array " + k + " " + v + ")" }
func isArraySort(s string) (k, v string, ok bool) {
	if !strings.HasPrefix(s, "(Array ") {
		return "", "", false
	}
	body := s[len("(Array ") : len(s)-1]
	// split at top level
	depth := 0
	for i := 0; i < len(body); i++ {
		switch body[i] {
		case '(':
			depth++
		case ')':
			depth--
		case ' ':
			if depth == 0 {
				return body[:i], body[i+1:], true
			}
		}
	}
	return "", "", false
}

func mk(op, sort string, args ...*Term) *Term { return &Term{Op: op, Sort: sort, Args: args} }
func V(name, sort string) *Term              { return &Term{Op: name, Sort: sort} }
func Num(n int) *Term {
	if n < 0 {
		return mk("-", SInt, &Term{Op: strconv.Itoa(-n), Sort: SInt})
	}
	return &Term{Op: strconv.Itoa(n), Sort: SInt}
}
func StrLit(s string) *Term { return &Term{Op: "strlit", Sort: SStr, Lit: s} }

var (
	True  = &Term{Op: "true", Sort: SBool}
	False = &Term{Op: "false", Sort: SBool}
)

func isTrue(t *Term) bool  { return t.Op == "true" && len(t.Args) == 0 }
func isFalse(t *Term) bool { return t.Op == "false" && len(t.Args) == 0 }

func And(ts ...*Term) *Term {
	var out []*Term
	for _, t := range ts {
		if t == nil || isTrue(t) {
			continue
		}
		if isFalse(t) {
			return False
		}
		if t.Op == "and" {
			out = append(out, t.Args...)
		} else {
			out = append(out, t)
		}
	}
	if len(out) == 0 {
		return True
	}
	if len(out) == 1 {
		return out[0]
	}
	return mk("and", SBool, out...)
}
func Or(ts ...*Term) *Term {
	var out []*Term
	for _, t := range ts {
		if t == nil || isFalse(t) {
			continue
		}
		if isTrue(t) {
			return True
		}
		out = append(out, t)
	}
	if len(out) == 0 {
		return False
	}
	if len(out) == 1 {
		return out[0]
	}
	return mk("or", SBool, out...)
}
func Not(t *Term) *Term {
	if isTrue(t) {
		return False
	}
	if isFalse(t) {
		return True
	}
	if t.Op == "not" {
		return t.Args[0]
	}
	return mk("not", SBool, t)
}
func Implies(a, b *Term) *Term {
	if isTrue(a) {
		return b
	}
	if isFalse(a) || isTrue(b) {
		return True
	}
	return mk("=>", SBool, a, b)
}
func Eq(a, b *Term) *Term {
	if a == b {
		return True
	}
	if a.Sort == SBool && isTrue(b) {
		return a
	}
	return mk("=", SBool, a, b)
}
func Neq(a, b *Term) *Term { return Not(Eq(a, b)) }
func Ite(c, a, b *Term) *Term {
	if isTrue(c) {
		return a
	}
	if isFalse(c) {
		return b
	}
	if a == b {
		return a
	}
	return &Term{Op: "ite", Sort: a.Sort, Args: []*Term{c, a, b}, GoType: a.GoType}
}
func Add(a, b *Term) *Term { return mk("+", SInt, a, b) }
func Sub(a, b *Term) *Term { return mk("-", SInt, a, b) }
func Lt(a, b *Term) *Term  { return mk("<", SBool, a, b) }
func Le(a, b *Term) *Term  { return mk("<=", SBool, a, b) }
func Select(a, i *Term) *Term {
	_, v, ok := isArraySort(a.Sort)
	if !ok {
		panic("select on non-array sort " + a.Sort + " term " + a.String())
	}
	return mk("select", v, a, i)
}
func Store(a, i, v *Term) *Term { return mk("store", a.Sort, a, i, v) }
func Forall(bind []*Term, body *Term) *Term {
	return &Term{Op: "forall", Sort: SBool, Bind: bind, Args: []*Term{body}}
}
func Exists(bind []*Term, body *Term) *Term {
	return &Term{Op: "exists", Sort: SBool, Bind: bind, Args: []*Term{body}}
}

func (t *Term) String() string {
	var sb strings.Builder
	p := &printer{mode: "ctl", lits: map[string]string{}}
	p.print(&sb, t)
	return sb.String()
}

// ---------------------------------------------------------------------------
// printing

type printer struct {
	mode string            // "str" => native strings; otherwise uninterpreted Str
	lits map[string]string // literal -> constant name (uninterpreted modes)
	litOrder []string
}

func (p *printer) sort(s string) string {
	if p.mode == "str" {
		// replace the token Str by String (token-wise)
		return replaceToken(s, "Str", "String")
	}
	return s
}

func replaceToken(s, from, to string) string {
	var sb strings.Builder
	i := 0
	for i < len(s) {
		if strings.HasPrefix(s[i:], from) {
			before := i == 0 || s[i-1] == ' ' || s[i-1] == '('
			j := i + len(from)
			after := j == len(s) || s[j] == ' ' || s[j] == ')'
			if before && after {
				sb.WriteString(to)
				i = j
				continue
			}
		}
		sb.WriteByte(s[i])
		i++
	}
	return sb.String()
}

// native names for string operations in mode str
var strNative = map[string]string{
	"s.cat": "str.++", "s.len": "str.len", "s.prefixof": "str.prefixof", "s.suffixof": "str.suffixof",
	"s.contains": "str.contains", "s.indexof": "str.indexof", "s.replace_all": "str.replace_all",
	"s.at": "str.at", "s.substr": "str.substr", "s.from_int": "str.from_int", "s.to_code": "str.to_code",
	"s.lt": "str.<",
}

func smtStringLit(s string) string {
	var sb strings.Builder
	sb.WriteByte('"')
	for i := 0; i < len(s); i++ {
		c := s[i]
		switch {
		case c == '"':
			sb.WriteString(`""`)
		case c == '\\' || c < 0x20 || c >= 0x7f:
			fmt.Fprintf(&sb, `\u{%x}`, c)
		default:
			sb.WriteByte(c)
		}
	}
	sb.WriteByte('"')
	return sb.String()
}

func (p *printer) litName(s string) string {
	if n, ok := p.lits[s]; ok {
		return n
	}
	n := fmt.Sprintf("lit!%d", len(p.lits))
	p.lits[s] = n
	p.litOrder = append(p.litOrder, s)
	return n
}

func (p *printer) print(sb *strings.Builder, t *Term) {
	switch t.Op {
	case "strlit":
		if p.mode == "str" {
			sb.WriteString(smtStringLit(t.Lit))
		} else {
			sb.WriteString(p.litName(t.Lit))
		}
		return
	case "forall", "exists":
		sb.WriteString("(" + t.Op + " (")
		for _, b := range t.Bind {
			sb.WriteString("(" + b.Op + " " + p.sort(b.Sort) + ")")
		}
		sb.WriteString(") ")
		if len(t.Pats) > 0 {
			sb.WriteString("(! ")
		}
		p.print(sb, t.Args[0])
		if len(t.Pats) > 0 {
			for _, pat := range t.Pats {
				sb.WriteString(" :pattern (")
				for i, e := range pat {
					if i > 0 {
						sb.WriteByte(' ')
					}
					p.print(sb, e)
				}
				sb.WriteString(")")
			}
			sb.WriteString(")")
		}
		sb.WriteString(")")
		return
	case "let":
		// Bind[i] := Args[i]; body = Args[len(Bind)]
		sb.WriteString("(let (")
		for i, b := range t.Bind {
			sb.WriteString("(" + b.Op + " ")
			p.print(sb, t.Args[i])
			sb.WriteString(")")
		}
		sb.WriteString(") ")
		p.print(sb, t.Args[len(t.Bind)])
		sb.WriteString(")")
		return
	case "const-array":
		sb.WriteString("((as const " + p.sort(t.Sort) + ") ")
		p.print(sb, t.Args[0])
		sb.WriteString(")")
		return
	}
	op := t.Op
	if p.mode == "str" && op == "s.byte" && len(t.Args) == 2 {
		sb.WriteString("(str.to_code (str.at ")
		p.print(sb, t.Args[0])
		sb.WriteByte(' ')
		p.print(sb, t.Args[1])
		sb.WriteString("))")
		return
	}
	if p.mode == "str" && op == "bytestr" && len(t.Args) == 1 {
		sb.WriteString("(str.from_code ")
		p.print(sb, t.Args[0])
		sb.WriteString(")")
		return
	}
	if strings.HasPrefix(op, "s.") {
		if p.mode == "str" {
			if n, ok := strNative[op]; ok {
				op = n
			}
		} else {
			op = "s_" + op[2:]
		}
	}
	if len(t.Args) == 0 {
		sb.WriteString(op)
		return
	}
	sb.WriteByte('(')
	sb.WriteString(op)
	for _, a := range t.Args {
		sb.WriteByte(' ')
		p.print(sb, a)
	}
	sb.WriteByte(')')
}

// ---------------------------------------------------------------------------
// traversal helpers

func (t *Term) walk(f func(*Term)) {
	f(t)
	for _, a := range t.Args {
		a.walk(f)
	}
}

// subst replaces free occurrences of variables (by name) with terms.
func subst(t *Term, m map[string]*Term) *Term {
	if len(m) == 0 {
		return t
	}
	if len(t.Args) == 0 && t.Op != "strlit" {
		if r, ok := m[t.Op]; ok {
			return r
		}
		return t
	}
	if len(t.Bind) > 0 && t.Op != "let" {
		// shadowing
		m2 := m
		for _, b := range t.Bind {
			if _, ok := m2[b.Op]; ok {
				if &m2 == &m || true {
					m3 := map[string]*Term{}
					for k, v := range m2 {
						m3[k] = v
					}
					m2 = m3
				}
				delete(m2, b.Op)
			}
		}
		m = m2
	}
	changed := false
	args := make([]*Term, len(t.Args))
	for i, a := range t.Args {
		args[i] = subst(a, m)
		if args[i] != a {
			changed = true
		}
	}
	var pats [][]*Term
	for _, pat := range t.Pats {
		var np []*Term
		for _, e := range pat {
			ne := subst(e, m)
			if ne != e {
				changed = true
			}
			np = append(np, ne)
		}
		pats = append(pats, np)
	}
	if !changed {
		return t
	}
	nt := *t
	nt.Args = args
	nt.Pats = pats
	return &nt
}

// freeConsts collects names of nullary symbols (excluding bound ones).
func freeConsts(t *Term, bound map[string]bool, out map[string]string) {
	if t.Op == "strlit" {
		return
	}
	if len(t.Bind) > 0 {
		nb := map[string]bool{}
		for k := range bound {
			nb[k] = true
		}
		for _, b := range t.Bind {
			nb[b.Op] = true
		}
		for _, a := range t.Args {
			freeConsts(a, nb, out)
		}
		for _, pat := range t.Pats {
			for _, e := range pat {
				freeConsts(e, nb, out)
			}
		}
		return
	}
	if len(t.Args) == 0 {
		if !bound[t.Op] {
			out[t.Op] = t.Sort
		}
		return
	}
	for _, a := range t.Args {
		freeConsts(a, bound, out)
	}
}

func sortedKeys[V any](m map[string]V) []string {
	ks := make([]string, 0, len(m))
	for k := range m {
		ks = append(ks, k)
	}
	sort.Strings(ks)
	return ks
}
