package main

// Replay of solver counterexamples against the real code, for the functions whose inputs and outputs are scalars
// (strings, byte slices, integers, booleans, pointers to them, pointers to structs with scalar fields, scalar
// package variables, []string fields of package-level objects).
//
//  1. the failed obligation is re-solved with (get-value ...) for the input terms of the entry state;
//  2. a Go test that calls the real function with these values is generated and run in the package through
//     `go test -overlay` (nothing is written to /repo);
//  3. the obligation is solved once more with the inputs AND the real outputs asserted. `sat` means: the values the
//     real code returned for this input falsify the contract clause along a path of the symbolic execution - the
//     violation is confirmed on the real code and the replay file carries the input, the output and the test.
//     A panic of the real code confirms a failed `nopanic` obligation directly.
//
// Anything else (no model, non-scalar inputs, abstract string values, step 3 not `sat`) leaves the violation reported
// with no-failing-input-found.

import (
	"context"
	"fmt"
	"go/types"
	"os"
	"os/exec"
	"path/filepath"
	"regexp"
	"sort"
	"strconv"
	"strings"
	"time"
)

type replayItem struct {
	Kind   string // param | ptrnil | ptrval | field | global | gslicelen | gsliceelem
	Name   string // parameter or global name
	Field  string
	GoType string // string []byte int bool
	Term   *Term
	Index  int
}

type ReplaySpec struct {
	Fi       *FuncInfo
	Items    []replayItem
	Rets     []*Term
	RetTypes []string // string []byte int bool error
	NoRequires bool
	sliceOf  map[string]*Term
	Reqs     []*Term      // translated preconditions
	Files    []replayFile // string parameters the contract uses as keys of the file-system view
}

// replayFile: a path parameter; existence and content of that file in the entry and in the return state
type replayFile struct {
	Param          string
	X0, C0, X1, C1 *Term
}

func scalarGoType(t types.Type) string {
	t = types.Unalias(t)
	if isByteSlice(t) {
		return "[]byte"
	}
	if b, ok := t.Underlying().(*types.Basic); ok {
		switch {
		case b.Info()&types.IsString != 0:
			return "string"
		case b.Info()&types.IsBoolean != 0:
			return "bool"
		case b.Kind() == types.Int:
			return "int"
		}
	}
	return ""
}

// buildReplaySpec returns nil when the function is outside the replayable class.
func (x *Exec) buildReplaySpec(entry, ret *State, vals []*Term) *ReplaySpec {
	fi := x.fi
	if fi.Lit != nil || fi.Recv != nil || fi.Decl == nil || x.mode == "arr" {
		return nil
	}
	sp := &ReplaySpec{Fi: fi, Rets: vals, sliceOf: map[string]*Term{}, NoRequires: len(x.c.Requires) == 0, Reqs: x.entryReqs}
	sig := fi.Sig
	if sig.Variadic() || sig.TypeParams() != nil {
		return nil
	}
	for i := 0; i < sig.Results().Len(); i++ {
		rt := sig.Results().At(i).Type()
		gt := scalarGoType(rt)
		if gt == "" {
			if types.Identical(rt, types.Universe.Lookup("error").Type()) {
				gt = "error"
			} else {
				return nil
			}
		}
		sp.RetTypes = append(sp.RetTypes, gt)
	}
	for i := 0; i < sig.Params().Len(); i++ {
		v := sig.Params().At(i)
		t := x.entryVars[v]
		if t == nil {
			return nil
		}
		if gt := scalarGoType(v.Type()); gt != "" {
			sp.Items = append(sp.Items, replayItem{Kind: "param", Name: v.Name(), GoType: gt, Term: t})
			if gt == "string" && x.contractMentionsFile(v.Name()) && ret != nil {
				xs, cs := arraySort(SStr, SBool), arraySort(SStr, SStr)
				sp.Files = append(sp.Files, replayFile{Param: v.Name(),
					X0: Select(x.getSt(entry, "fsx", xs), t), C0: Select(x.getSt(entry, "fsc", cs), t),
					X1: Select(x.getSt(ret, "fsx", xs), t), C1: Select(x.getSt(ret, "fsc", cs), t)})
			}
			continue
		}
		pt, ok := types.Unalias(v.Type()).Underlying().(*types.Pointer)
		if !ok {
			return nil
		}
		sp.Items = append(sp.Items, replayItem{Kind: "ptrnil", Name: v.Name(), GoType: "bool", Term: Eq(t, V("null", SRef))})
		if gt := scalarGoType(pt.Elem()); gt != "" {
			pv, srt := x.u.ptrVar(pt.Elem())
			sp.Items = append(sp.Items, replayItem{Kind: "ptrval", Name: v.Name(), GoType: gt, Term: Select(x.getSt(entry, pv, arraySort(SRef, srt)), t)})
			continue
		}
		n := namedOf(pt.Elem())
		if n == nil || !x.isHeapStructType(pt.Elem()) || n.Obj().Pkg() != fi.Pkg.Types {
			return nil
		}
		st := n.Underlying().(*types.Struct)
		for j := 0; j < st.NumFields(); j++ {
			f := st.Field(j)
			gt := scalarGoType(f.Type())
			if gt == "" {
				continue // other fields keep their zero value; a clause depending on them will not be confirmed
			}
			fs := x.u.sortOf(f.Type())
			sp.Items = append(sp.Items, replayItem{Kind: "field", Name: v.Name(), Field: f.Name(), GoType: gt,
				Term: Select(x.getSt(entry, x.u.fieldVar(n, f.Name()), arraySort(SRef, fs)), t)})
		}
	}
	// scalar package variables, and []string fields of package-level pointers to structs
	scope := fi.Pkg.Types.Scope()
	for _, name := range scope.Names() {
		v, ok := scope.Lookup(name).(*types.Var)
		if !ok {
			continue
		}
		if gt := scalarGoType(v.Type()); gt != "" && gt != "[]byte" {
			if x.u.isConstGlobal(v) && x.u.constInit(v) != nil {
				continue // denotes its constant initialiser
			}
			sp.Items = append(sp.Items, replayItem{Kind: "global", Name: name, GoType: gt, Term: x.globalValue(entry, v)})
			continue
		}
		pt, ok := types.Unalias(v.Type()).Underlying().(*types.Pointer)
		if !ok {
			continue
		}
		n := namedOf(pt.Elem())
		if n == nil || !x.isHeapStructType(pt.Elem()) || n.Obj().Pkg() != fi.Pkg.Types {
			continue
		}
		st, ok := n.Underlying().(*types.Struct)
		if !ok {
			continue
		}
		for j := 0; j < st.NumFields(); j++ {
			f := st.Field(j)
			sl, ok := f.Type().Underlying().(*types.Slice)
			if !ok || scalarGoType(sl.Elem()) != "string" {
				continue
			}
			fs := x.u.sortOf(f.Type())
			base := x.globalValue(entry, v)
			slice := Select(x.getSt(entry, x.u.fieldVar(n, f.Name()), arraySort(SRef, fs)), base)
			sp.sliceOf[name+"."+f.Name()] = slice
			sp.Items = append(sp.Items, replayItem{Kind: "gslicelen", Name: name, Field: f.Name(), GoType: "int", Term: sliceLen(slice)})
		}
	}
	return sp
}

// contractMentionsFile: the contract speaks about the file named by this parameter (fsc[p] / fsx[p]).
func (x *Exec) contractMentionsFile(param string) bool {
	for _, cl := range x.c.Ensures {
		if strings.Contains(cl.Text, "fsc["+param+"]") || strings.Contains(cl.Text, "fsx["+param+"]") {
			return true
		}
	}
	for _, l := range x.c.Lets {
		if strings.Contains(l.Text, "fsc["+param+"]") || strings.Contains(l.Text, "fsx["+param+"]") {
			return true
		}
	}
	return false
}

// ---------------------------------------------------------------------------

var getValueRe = regexp.MustCompile(`(?s)^\s*\(\((.*)\)\)\s*$`)

// parseSMTString decodes an SMT-LIB string literal body (between the quotes).
func parseSMTString(s string) (string, bool) {
	var sb strings.Builder
	for i := 0; i < len(s); i++ {
		c := s[i]
		if c == '"' && i+1 < len(s) && s[i+1] == '"' {
			sb.WriteByte('"')
			i++
			continue
		}
		if c == '\\' && i+1 < len(s) && s[i+1] == 'u' {
			j := i + 2
			hex := ""
			if j < len(s) && s[j] == '{' {
				k := strings.IndexByte(s[j:], '}')
				if k < 0 {
					return "", false
				}
				hex = s[j+1 : j+k]
				i = j + k
			} else if j+4 <= len(s) {
				hex = s[j : j+4]
				i = j + 3
			} else {
				return "", false
			}
			n, err := strconv.ParseUint(hex, 16, 32)
			if err != nil || n > 255 {
				// code points above 255 do not denote Go bytes in this model
				return "", false
			}
			sb.WriteByte(byte(n))
			continue
		}
		sb.WriteByte(c)
	}
	return sb.String(), true
}

func smtString(s string) string {
	var sb strings.Builder
	sb.WriteByte('"')
	for i := 0; i < len(s); i++ {
		c := s[i]
		switch {
		case c == '"':
			sb.WriteString(`""`)
		case c == '\\' || c < 0x20 || c >= 0x7f:
			fmt.Fprintf(&sb, `\u{%x}`, c)
		default:
			sb.WriteByte(c)
		}
	}
	sb.WriteByte('"')
	return sb.String()
}

// splitGetValue splits the answer of (get-value (t1 ... tn)) into the n value strings, in order.
func splitGetValue(out string, n int) []string {
	i := strings.Index(out, "((")
	if i < 0 {
		return nil
	}
	s := out[i+1:]
	var vals []string
	pos := 0
	for len(vals) < n {
		// next pair "(term value)"
		for pos < len(s) && s[pos] != '(' {
			pos++
		}
		if pos >= len(s) {
			return nil
		}
		depth, inStr := 0, false
		start := pos
		end := -1
		for k := pos; k < len(s); k++ {
			ch := s[k]
			if inStr {
				if ch == '"' {
					if k+1 < len(s) && s[k+1] == '"' {
						k++
						continue
					}
					inStr = false
				}
				continue
			}
			if ch == '"' {
				inStr = true
			} else if ch == '(' {
				depth++
			} else if ch == ')' {
				depth--
				if depth == 0 {
					end = k
					break
				}
			}
		}
		if end < 0 {
			return nil
		}
		pair := s[start+1 : end]
		// the value is the last s-expression of the pair
		v := lastSexp(pair)
		vals = append(vals, v)
		pos = end + 1
	}
	return vals
}

func lastSexp(p string) string {
	p = strings.TrimSpace(p)
	if p == "" {
		return ""
	}
	if p[len(p)-1] == '"' {
		// string literal: scan back to its opening quote
		k := len(p) - 2
		for k >= 0 {
			if p[k] == '"' {
				if k > 0 && p[k-1] == '"' {
					k -= 2
					continue
				}
				break
			}
			k--
		}
		if k < 0 {
			return ""
		}
		return p[k:]
	}
	if p[len(p)-1] == ')' {
		depth := 0
		for k := len(p) - 1; k >= 0; k-- {
			if p[k] == ')' {
				depth++
			} else if p[k] == '(' {
				depth--
				if depth == 0 {
					return p[k:]
				}
			}
		}
		return ""
	}
	k := strings.LastIndexAny(p, " \n\t")
	return p[k+1:]
}

type replayValue struct {
	S string
	I int
	B bool
}

func parseValue(goType, v string) (replayValue, bool) {
	v = strings.TrimSpace(v)
	switch goType {
	case "bool":
		if v == "true" {
			return replayValue{B: true}, true
		}
		if v == "false" {
			return replayValue{}, true
		}
	case "int":
		w := strings.NewReplacer("(", "", ")", "", " ", "").Replace(v)
		n, err := strconv.Atoi(w)
		if err == nil && n > -1<<40 && n < 1<<40 {
			return replayValue{I: n}, true
		}
	case "string", "[]byte":
		if len(v) >= 2 && v[0] == '"' && v[len(v)-1] == '"' {
			s, ok := parseSMTString(v[1 : len(v)-1])
			return replayValue{S: s}, ok
		}
	}
	return replayValue{}, false
}

func (v replayValue) goLit(goType string) string {
	switch goType {
	case "bool":
		return fmt.Sprintf("%t", v.B)
	case "int":
		return fmt.Sprintf("%d", v.I)
	case "[]byte":
		return "[]byte(" + strconv.Quote(v.S) + ")"
	}
	return strconv.Quote(v.S)
}

func (v replayValue) smtLit(goType string) string {
	switch goType {
	case "bool":
		return fmt.Sprintf("%t", v.B)
	case "int":
		if v.I < 0 {
			return fmt.Sprintf("(- %d)", -v.I)
		}
		return fmt.Sprintf("%d", v.I)
	}
	return smtString(v.S)
}

func (v replayValue) term(goType string) *Term {
	switch goType {
	case "bool":
		if v.B {
			return True
		}
		return False
	case "int":
		if v.I < 0 {
			return mk("-", SInt, Num(0), Num(-v.I))
		}
		return Num(v.I)
	}
	return StrLit(v.S)
}

func queryWith(q string, extra []string, tail string) string {
	i := strings.LastIndex(q, "(check-sat)")
	if i < 0 {
		return ""
	}
	return q[:i] + strings.Join(extra, "\n") + "\n(check-sat)\n" + tail + "\n"
}

func printTerm(t *Term, mode string) string {
	var sb strings.Builder
	pr := &printer{mode: mode, lits: map[string]string{}}
	pr.print(&sb, t)
	return sb.String()
}

// runModelSolver runs the solvers that can produce a model for this theory and returns the first answer that
// starts with `sat` (native strings: cvc5 first, it decides what z3 leaves unknown), else the last answer.
func runModelSolver(query, mode string, seconds int) string {
	dir := ensureWorkDir()
	qMu.Lock()
	qCounter++
	n := qCounter
	qMu.Unlock()
	file := filepath.Join(dir, fmt.Sprintf("replay%d.smt2", n))
	os.WriteFile(file, []byte(query), 0o644)
	defer os.Remove(file)
	cmds := [][]string{{"z3-new", fmt.Sprintf("-T:%d", seconds), file}}
	if mode == "str" {
		cmds = append([][]string{{"cvc5", fmt.Sprintf("--tlimit=%d", seconds*1000), "--strings-exp", "--produce-models", file}}, cmds...)
	}
	last := ""
	for _, c := range cmds {
		out, _ := runCmdTimeout(seconds+2, c[0], c[1:]...)
		var keep []string
		for _, l := range strings.Split(out, "\n") {
			if !strings.HasPrefix(l, "WARNING") {
				keep = append(keep, l)
			}
		}
		out = strings.Join(keep, "\n")
		if strings.HasPrefix(strings.TrimSpace(out), "sat") {
			return out
		}
		last = out
	}
	return last
}

// tryReplay attempts the three steps; it returns the content to add to the replay file and whether the violation was
// confirmed on the real code.
func tryReplay(p *Prelude, o *Obligation) (map[string]any, bool) {
	sp := o.Replay
	if sp == nil || o.Mode != "str" && o.Mode != "ctl" && o.Mode != "lines" {
		return nil, false
	}
	if o.Mode == "lines" {
		// texts are abstract (nl, seg) values there: no concrete model; search small concrete inputs instead
		return searchWitness(p, o)
	}
	info := map[string]any{}
	base := p.buildQuery(o, true, 8)
	if !strings.Contains(base, "(check-sat)") {
		return nil, false
	}
	// step 1: values of the inputs
	// inputs the query does not mention are unconstrained: they take the zero value and are not bound
	declared := map[string]bool{"null": true, "err_nil": true}
	for _, m := range regexp.MustCompile(`\(declare-(?:const|fun) (\S+)`).FindAllStringSubmatch(base, -1) {
		declared[m[1]] = true
	}
	var items []replayItem
	var freeItems []replayItem
	for _, it := range sp.Items {
		ok := true
		for sname := range termSyms(it.Term) {
			pn := sname
			if strings.HasPrefix(pn, "s.") {
				pn = "s_" + pn[2:]
			}
			if !declared[pn] && !strings.HasPrefix(pn, "len_") && !strings.HasPrefix(pn, "arr_") {
				ok = false
			}
		}
		if ok {
			items = append(items, it)
		} else {
			freeItems = append(freeItems, it)
		}
	}
	{
		var withElems []replayItem
		for _, it := range items {
			withElems = append(withElems, it)
			if it.Kind == "gslicelen" {
				sl := sp.sliceOf[it.Name+"."+it.Field]
				for k := 0; k < 3; k++ {
					withElems = append(withElems, replayItem{Kind: "gsliceelem", Name: it.Name, Field: it.Field, GoType: "string", Term: Select(p.u.sliceArr(sl), Num(k)), Index: k})
				}
			}
		}
		items = withElems
	}
	var terms []string
	for _, it := range items {
		terms = append(terms, printTerm(it.Term, o.Mode))
	}
	// in the theory with uninterpreted strings a string value is a literal of the query or an abstract element; an
	// abstract element is replayed as a fresh string different from every literal (only equality is observable there)
	litOf := map[string]string{}
	for _, m := range regexp.MustCompile(`(?m)^\(declare-const (lit!\d+) Str\) ; (".*")$`).FindAllStringSubmatch(base, -1) {
		if sv, err := strconv.Unquote(m[2]); err == nil {
			litOf[m[1]] = sv
		}
	}
	var small []string
	for _, it := range items {
		if it.Kind == "gslicelen" {
			small = append(small, fmt.Sprintf("(assert (<= %s 3))", printTerm(it.Term, o.Mode)))
		}
	}
	if len(terms) == 0 {
		return nil, false
	}
	out := runModelSolver(queryWith(base, small, "(get-value ("+strings.Join(terms, " ")+"))"), o.Mode, 10)
	if !strings.HasPrefix(strings.TrimSpace(out), "sat") {
		if extra, ok := searchWitness(p, o); extra != nil {
			return extra, ok
		}
		info["replay_skipped"] = "no model within 10 s for the size-capped query"
		return info, false
	}
	vals := splitGetValue(out, len(terms))
	if vals == nil {
		info["replay_skipped"] = "could not parse the model"
		info["model_output"] = truncate(out, 2000)
		return info, false
	}
	values := make([]replayValue, len(items))
	for i, it := range items {
		v, ok := parseValue(it.GoType, vals[i])
		if !ok && o.Mode == "ctl" && (it.GoType == "string" || it.GoType == "[]byte") {
			w := strings.TrimSpace(vals[i])
			if sv, isLit := litOf[w]; isLit {
				v, ok = replayValue{S: sv}, true
			} else if strings.HasPrefix(w, "Str!val!") {
				v, ok = replayValue{S: "abstract-value-" + strings.TrimPrefix(w, "Str!val!")}, true
			}
		}
		if !ok {
			info["replay_skipped"] = fmt.Sprintf("input %s.%s has no concrete value in the model (%s)", it.Name, it.Field, truncate(vals[i], 60))
			return info, false
		}
		values[i] = v
	}
	// drop the slice elements beyond the length found in the model
	{
		lens := map[string]int{}
		for i, it := range items {
			if it.Kind == "gslicelen" {
				lens[it.Name+"."+it.Field] = values[i].I
			}
		}
		var ki []replayItem
		var kt []string
		var kv []replayValue
		for i, it := range items {
			if it.Kind == "gsliceelem" && it.Index >= lens[it.Name+"."+it.Field] {
				continue
			}
			ki, kt, kv = append(ki, it), append(kt, terms[i]), append(kv, values[i])
		}
		items, terms, values = ki, kt, kv
	}
	// step 2: the Go test
	nBound := len(items)
	for _, it := range freeItems {
		if it.Kind == "gslicelen" || it.Kind == "global" {
			continue // package state the obligation does not depend on is left as it is
		}
		items = append(items, it)
		values = append(values, replayValue{B: it.Kind == "ptrnil"})
	}
	src, inputsDesc := replayTestSource(sp, items, values)
	info["inputs"] = inputsDesc
	info["go_test"] = src
	if len(sp.Fi.Pkg.GoFiles) > 0 {
		if rel, err := filepath.Rel(repoDir, filepath.Dir(sp.Fi.Pkg.GoFiles[0])); err == nil {
			info["go_test_pkg"] = rel
		}
	}
	dir := ensureWorkDir()
	pkgDir := "."
	if len(sp.Fi.Pkg.GoFiles) > 0 {
		if rel, err := filepath.Rel(repoDir, filepath.Dir(sp.Fi.Pkg.GoFiles[0])); err == nil {
			pkgDir = rel
		}
	}
	tf := filepath.Join(dir, "replay_"+mangle(o.Name)+"_test.go")
	os.WriteFile(tf, []byte(src), 0o644)
	defer os.Remove(tf)
	testOut, _ := goTestOverlay(tf, pkgDir, "^TestVerifReplay$", 60, nil)
	info["go_test_output"] = truncate(testOut, 3000)
	if m := regexp.MustCompile(`(?m)^REPLAY-PANIC (.*)$`).FindStringSubmatch(testOut); m != nil {
		info["real_code"] = "panicked: " + m[1]
		if o.Kind == "nopanic" {
			return info, true
		}
		return info, false
	}
	if o.Kind != "ensures" {
		return info, false
	}
	// step 3: the real outputs against the clause (bindings are added as hypotheses so that literals are printed with
	// the query's own literal table)
	var bind []*Term
	for j, jt := range items[:nBound] {
		bind = append(bind, Eq(jt.Term, values[j].term(jt.GoType)))
	}
	outs := map[string]any{}
	for i, rt := range sp.RetTypes {
		m := regexp.MustCompile(fmt.Sprintf(`(?m)^REPLAY-OUT %d (.*)$`, i)).FindStringSubmatch(testOut)
		if m == nil {
			info["replay_skipped"] = "the generated test did not run to completion"
			return info, false
		}
		rterm := sp.Rets[i]
		switch rt {
		case "error":
			outs[fmt.Sprintf("result%d", i)] = m[1]
			if m[1] == "nil" {
				bind = append(bind, Eq(rterm, V("err_nil", SErr)))
			} else {
				bind = append(bind, Not(Eq(rterm, V("err_nil", SErr))))
			}
		case "string", "[]byte":
			if o.Mode != "str" {
				info["replay_skipped"] = "string results are abstract values in this theory"
				return info, false
			}
			sv, err := strconv.Unquote(m[1])
			if err != nil {
				return info, false
			}
			outs[fmt.Sprintf("result%d", i)] = sv
			bind = append(bind, Eq(rterm, StrLit(sv)))
		case "int":
			n, err := strconv.Atoi(m[1])
			if err != nil {
				return info, false
			}
			outs[fmt.Sprintf("result%d", i)] = n
			bind = append(bind, Eq(rterm, replayValue{I: n}.term("int")))
		case "bool":
			outs[fmt.Sprintf("result%d", i)] = m[1] == "true"
			bind = append(bind, Eq(rterm, replayValue{B: m[1] == "true"}.term("bool")))
		}
	}
	info["real_outputs"] = outs
	o3 := *o
	o3.Hyps = append(append([]*Term(nil), o.Hyps...), bind...)
	out3 := runModelSolver(p.buildQuery(&o3, false, 0), o.Mode, 20)
	verdict := strings.TrimSpace(strings.SplitN(strings.TrimSpace(out3), "\n", 2)[0])
	info["clause_on_real_output"] = verdict
	if verdict == "sat" {
		// the clause must be false for these values under every interpretation of the uninterpreted functions the
		// hypotheses allow: the same query with the clause asserted positively has to be unsatisfiable
		o2 := o3
		o2.Goal = Not(o.Goal)
		out4 := runModelSolver(p.buildQuery(&o2, false, 0), o.Mode, 20)
		v4 := strings.TrimSpace(strings.SplitN(strings.TrimSpace(out4), "\n", 2)[0])
		info["clause_can_hold_for_real_output"] = v4
		if v4 == "unsat" {
			info["real_code"] = "for this input the real code returns the values above, which falsify the clause"
			return info, true
		}
		info["replay_skipped"] = "the clause is not decided by the concrete values alone (it depends on uninterpreted library functions): " + v4
		return info, false
	}
	info["replay_skipped"] = "the outputs of the real code for the model's input do not falsify the clause (" + verdict + "): the model is not a run of the real code"
	return info, false
}

func replayTestSource(sp *ReplaySpec, items []replayItem, values []replayValue) (string, map[string]any) {
	fi := sp.Fi
	desc := map[string]any{}
	var sb strings.Builder
	fmt.Fprintf(&sb, "package %s\n\n// generated by govc: replay of a solver counterexample against the real code\n\nimport (\n\t\"fmt\"\n\t\"testing\"\n)\n\n", fi.Pkg.Types.Name())
	sb.WriteString("func TestVerifReplay(t *testing.T) {\n")
	sb.WriteString("\tdefer func() {\n\t\tif r := recover(); r != nil {\n\t\t\tfmt.Printf(\"REPLAY-PANIC %v\\n\", r)\n\t\t}\n\t}()\n")
	// globals
	sliceElems := map[string][]string{}
	sliceSeen := map[string]bool{}
	for i, it := range items {
		switch it.Kind {
		case "global":
			fmt.Fprintf(&sb, "\t{\n\t\tsaved := %s\n\t\t%s = %s\n\t\tdefer func() { %s = saved }()\n\t}\n", it.Name, it.Name, values[i].goLit(it.GoType), it.Name)
			desc[it.Name] = valueDesc(values[i], it.GoType)
		case "gslicelen":
			sliceSeen[it.Name+"."+it.Field] = true
		case "gsliceelem":
			sliceElems[it.Name+"."+it.Field] = append(sliceElems[it.Name+"."+it.Field], values[i].goLit("string"))
		}
	}
	for _, k := range sortedKeysBool(sliceSeen) {
		fmt.Fprintf(&sb, "\tif %s != nil {\n\t\tsaved := %s\n\t\t%s = []string{%s}\n\t\tdefer func() { %s = saved }()\n\t}\n", strings.SplitN(k, ".", 2)[0], k, k, strings.Join(sliceElems[k], ", "), k)
		desc[k] = sliceElems[k]
	}
	// arguments
	sig := fi.Sig
	var args []string
	for pi := 0; pi < sig.Params().Len(); pi++ {
		v := sig.Params().At(pi)
		name := v.Name()
		var direct *replayValue
		var directType string
		isNil := false
		havePtr := false
		var ptrVal *replayValue
		var ptrType string
		fields := []string{}
		for i, it := range items {
			if it.Name != name {
				continue
			}
			switch it.Kind {
			case "param":
				vv := values[i]
				direct, directType = &vv, it.GoType
			case "ptrnil":
				havePtr = true
				isNil = values[i].B
			case "ptrval":
				vv := values[i]
				ptrVal, ptrType = &vv, it.GoType
			case "field":
				fields = append(fields, fmt.Sprintf("%s: %s", it.Field, values[i].goLit(it.GoType)))
				if !isNil {
					desc[name+"."+it.Field] = valueDesc(values[i], it.GoType)
				}
			}
		}
		an := fmt.Sprintf("a%d", pi)
		tstr := types.TypeString(v.Type(), func(p *types.Package) string {
			if p == fi.Pkg.Types {
				return ""
			}
			return p.Name()
		})
		switch {
		case direct != nil:
			fmt.Fprintf(&sb, "\t%s := %s\n", an, direct.goLit(directType))
			desc[name] = valueDesc(*direct, directType)
		case havePtr && isNil:
			fmt.Fprintf(&sb, "\tvar %s %s\n", an, tstr)
			desc[name] = "nil"
		case ptrVal != nil:
			fmt.Fprintf(&sb, "\t%sv := %s\n\t%s := &%sv\n", an, ptrVal.goLit(ptrType), an, an)
			desc["*"+name] = valueDesc(*ptrVal, ptrType)
		default:
			fmt.Fprintf(&sb, "\t%s := &%s{%s}\n", an, strings.TrimPrefix(tstr, "*"), strings.Join(fields, ", "))
		}
		args = append(args, an)
	}
	call := fmt.Sprintf("%s(%s)", fi.Decl.Name.Name, strings.Join(args, ", "))
	if len(sp.RetTypes) == 0 {
		fmt.Fprintf(&sb, "\t%s\n", call)
	} else {
		var rs []string
		for i := range sp.RetTypes {
			rs = append(rs, fmt.Sprintf("r%d", i))
		}
		fmt.Fprintf(&sb, "\t%s := %s\n", strings.Join(rs, ", "), call)
		for i, rt := range sp.RetTypes {
			switch rt {
			case "error":
				fmt.Fprintf(&sb, "\tif r%d == nil {\n\t\tfmt.Printf(\"REPLAY-OUT %d nil\\n\")\n\t} else {\n\t\tfmt.Printf(\"REPLAY-OUT %d %%q\\n\", r%d.Error())\n\t}\n", i, i, i, i)
			case "string":
				fmt.Fprintf(&sb, "\tfmt.Printf(\"REPLAY-OUT %d %%q\\n\", r%d)\n", i, i)
			case "[]byte":
				fmt.Fprintf(&sb, "\tfmt.Printf(\"REPLAY-OUT %d %%q\\n\", string(r%d))\n", i, i)
			default:
				fmt.Fprintf(&sb, "\tfmt.Printf(\"REPLAY-OUT %d %%v\\n\", r%d)\n", i, i)
			}
		}
	}
	sb.WriteString("}\n")
	return sb.String(), desc
}

func valueDesc(v replayValue, goType string) any {
	switch goType {
	case "bool":
		return v.B
	case "int":
		return v.I
	}
	return v.S
}

func sortedKeysBool(m map[string]bool) []string {
	var ks []string
	for k := range m {
		ks = append(ks, k)
	}
	sort.Strings(ks)
	return ks
}

func runCmdTimeout(seconds int, name string, args ...string) (string, error) {
	ctx, cancel := context.WithTimeout(context.Background(), time.Duration(seconds)*time.Second)
	defer cancel()
	out, err := exec.CommandContext(ctx, name, args...).CombinedOutput()
	return string(out), err
}

// searchWitness: when the solver gives no model (timeout/unknown, or texts are abstract in the theory), a failing input
// is searched among a small pool of concrete arguments: the real function is run on every combination in one generated
// test, and each (input, real output) pair is judged by the solver against the failed clause exactly as in step 3 of
// tryReplay (clause negated: sat; clause asserted: unsat). Only functions whose parameters are strings, byte slices,
// ints and bools are searched; package state is left as it is. Pool: texts of up to three lines over
// {"", "---", "/-/-/-/", "a", "b"} and of four lines over {"", "---", "a"}; ints 0..2; both booleans; at most 400 combinations.
func searchWitness(p *Prelude, o *Obligation) (map[string]any, bool) {
	sp := o.Replay
	if sp != nil && len(sp.Files) > 0 {
		return searchFileWitness(p, o)
	}
	if sp == nil || o.Kind != "ensures" || !sp.NoRequires {
		return nil, false // the closed clause is judged without hypotheses: only for functions without preconditions
	}
	var params []replayItem
	for _, it := range sp.Items {
		switch it.Kind {
		case "param":
			params = append(params, it)
		case "global", "gslicelen":
		default:
			return nil, false
		}
	}
	if len(params) == 0 || len(params) > 3 {
		return nil, false
	}
	lines := []string{"", "---", "/-/-/-/", "a", "b"}
	var texts []string
	for _, a := range lines {
		texts = append(texts, a)
		for _, b := range lines {
			texts = append(texts, a+"\n"+b)
			for _, c := range lines {
				texts = append(texts, a+"\n"+b+"\n"+c)
			}
		}
	}
	for _, a := range []string{"", "---", "a"} {
		for _, b := range []string{"", "---", "a"} {
			for _, c := range []string{"", "---", "a"} {
				for _, d := range []string{"", "---", "a"} {
					texts = append(texts, a+"\n"+b+"\n"+c+"\n"+d)
				}
			}
		}
	}
	pool := func(goType string) []replayValue {
		var out []replayValue
		switch goType {
		case "string", "[]byte":
			for _, t := range texts {
				out = append(out, replayValue{S: t})
			}
		case "int":
			for i := 0; i <= 2; i++ {
				out = append(out, replayValue{I: i})
			}
		case "bool":
			out = []replayValue{{B: false}, {B: true}}
		}
		return out
	}
	combos := [][]replayValue{{}}
	for _, it := range params {
		var next [][]replayValue
		for _, c := range combos {
			for _, v := range pool(it.GoType) {
				next = append(next, append(append([]replayValue(nil), c...), v))
			}
		}
		combos = next
		if len(combos) > 400 {
			combos = combos[:400]
		}
	}
	// one test running all combinations
	fi := sp.Fi
	var sb strings.Builder
	fmt.Fprintf(&sb, "package %s\n\nimport (\n\t\"fmt\"\n\t\"testing\"\n)\n\nfunc TestVerifReplay(t *testing.T) {\n", fi.Pkg.Types.Name())
	for ci, c := range combos {
		var args []string
		for j, it := range params {
			args = append(args, c[j].goLit(it.GoType))
		}
		fmt.Fprintf(&sb, "\tfunc() {\n\t\tdefer func() {\n\t\t\tif r := recover(); r != nil {\n\t\t\t\tfmt.Printf(\"REPLAY-CASE %d PANIC %%v\\n\", r)\n\t\t\t}\n\t\t}()\n", ci)
		var rs []string
		for i := range sp.RetTypes {
			rs = append(rs, fmt.Sprintf("r%d", i))
		}
		fmt.Fprintf(&sb, "\t\t%s := %s(%s)\n", strings.Join(rs, ", "), fi.Decl.Name.Name, strings.Join(args, ", "))
		for i, rt := range sp.RetTypes {
			switch rt {
			case "error":
				fmt.Fprintf(&sb, "\t\tfmt.Printf(\"REPLAY-CASE %d OUT %d %%v\\n\", r%d == nil)\n", ci, i, i)
			case "[]byte":
				fmt.Fprintf(&sb, "\t\tfmt.Printf(\"REPLAY-CASE %d OUT %d %%q\\n\", string(r%d))\n", ci, i, i)
			case "string":
				fmt.Fprintf(&sb, "\t\tfmt.Printf(\"REPLAY-CASE %d OUT %d %%q\\n\", r%d)\n", ci, i, i)
			default:
				fmt.Fprintf(&sb, "\t\tfmt.Printf(\"REPLAY-CASE %d OUT %d %%v\\n\", r%d)\n", ci, i, i)
			}
		}
		sb.WriteString("\t}()\n")
	}
	sb.WriteString("}\n")
	dir := ensureWorkDir()
	pkgDir := "."
	if len(fi.Pkg.GoFiles) > 0 {
		if rel, err := filepath.Rel(repoDir, filepath.Dir(fi.Pkg.GoFiles[0])); err == nil {
			pkgDir = rel
		}
	}
	tf := filepath.Join(dir, "replaysearch_"+mangle(o.Name)+"_test.go")
	os.WriteFile(tf, []byte(sb.String()), 0o644)
	defer os.Remove(tf)
	testOut, _ := goTestOverlay(tf, pkgDir, "^TestVerifReplay$", 120, nil)
	outRe := regexp.MustCompile(`(?m)^REPLAY-CASE (\d+) OUT (\d+) (.*)$`)
	outs := map[int]map[int]string{}
	for _, m := range outRe.FindAllStringSubmatch(testOut, -1) {
		ci, _ := strconv.Atoi(m[1])
		ri, _ := strconv.Atoi(m[2])
		if outs[ci] == nil {
			outs[ci] = map[int]string{}
		}
		outs[ci][ri] = m[3]
	}
	info := map[string]any{"search": fmt.Sprintf("%d concrete argument combinations run on the real code", len(combos))}
	tried := 0
	searchStart := time.Now()
	for ci, c := range combos {
		ro := outs[ci]
		if len(ro) != len(sp.RetTypes) {
			continue
		}
		var bind []*Term
		desc := map[string]any{}
		for j, it := range params {
			bind = append(bind, Eq(it.Term, c[j].term(it.GoType)))
			desc[it.Name] = valueDesc(c[j], it.GoType)
		}
		real := map[string]any{}
		okBind := true
		for i, rt := range sp.RetTypes {
			switch rt {
			case "error":
				if ro[i] == "true" {
					bind = append(bind, Eq(sp.Rets[i], V("err_nil", SErr)))
				} else {
					bind = append(bind, Not(Eq(sp.Rets[i], V("err_nil", SErr))))
				}
				real[fmt.Sprintf("result%d", i)] = map[string]any{"nil": ro[i] == "true"}
			case "string", "[]byte":
				sv, err := strconv.Unquote(ro[i])
				if err != nil {
					okBind = false
				}
				bind = append(bind, Eq(sp.Rets[i], StrLit(sv)))
				real[fmt.Sprintf("result%d", i)] = sv
			case "int":
				n, err := strconv.Atoi(ro[i])
				if err != nil {
					okBind = false
				}
				bind = append(bind, Eq(sp.Rets[i], replayValue{I: n}.term("int")))
				real[fmt.Sprintf("result%d", i)] = n
			case "bool":
				bind = append(bind, Eq(sp.Rets[i], replayValue{B: ro[i] == "true"}.term("bool")))
				real[fmt.Sprintf("result%d", i)] = ro[i] == "true"
			}
		}
		if !okBind {
			continue
		}
		// the clause with the arguments and the real results substituted must be closed (no symbol of the symbolic
		// execution left); it is then judged on its own, without the path hypotheses: unsatisfiable = false for this pair
		tried++
		if tried > 400 || time.Since(searchStart) > 45*time.Second {
			info["search_stopped"] = fmt.Sprintf("budget reached after %d candidates", tried-1)
			break
		}
		repl := map[string]*Term{}
		for j, it := range params {
			repl[it.Term.String()] = c[j].term(it.GoType)
		}
		closed := o.Goal
		for i, rt := range sp.RetTypes {
			var lit *Term
			switch rt {
			case "string", "[]byte":
				lit = StrLit(real[fmt.Sprintf("result%d", i)].(string))
			case "int":
				lit = replayValue{I: real[fmt.Sprintf("result%d", i)].(int)}.term("int")
			case "bool":
				lit = replayValue{B: real[fmt.Sprintf("result%d", i)].(bool)}.term("bool")
			default:
				lit = nil
			}
			if lit != nil {
				repl[sp.Rets[i].String()] = lit
			}
		}
		closed = substByString(closed, repl)
		if !closedTerm(closed) {
			info["replay_skipped"] = "the clause still mentions symbols of the symbolic execution after substituting arguments and results"
			return info, false
		}
		// two queries side by side: the clause asserted (unsat: it is false for this pair) and its negation asserted
		// (unsat: it holds, next candidate); the holding case answers in milliseconds, so the budget goes to real candidates
		oc := &Obligation{Func: o.Func, Name: o.Name + "#closed", Kind: "ensures", Goal: Not(closed), Mode: o.Mode, LemmaIndex: -1}
		oh := &Obligation{Func: o.Func, Name: o.Name + "#closedneg", Kind: "ensures", Goal: closed, Mode: o.Mode, LemmaIndex: -1}
		qc, qh := p.buildQuery(oc, false, 0), p.buildQuery(oh, false, 0)
		type ans struct {
			which string
			v     string
		}
		ch := make(chan ans, 2)
		go func() { ch <- ans{"violated", firstLine(runModelSolver(qc, o.Mode, 3))} }()
		go func() { ch <- ans{"holds", firstLine(runModelSolver(qh, o.Mode, 3))} }()
		violated := false
		for k := 0; k < 2; k++ {
			a := <-ch
			if a.v == "unsat" {
				violated = a.which == "violated"
				break
			}
		}
		if !violated {
			continue
		}
		info["inputs"] = desc
		info["real_outputs"] = real
		info["closed_clause"] = "unsatisfiable for these values (judged without the path hypotheses)"
		info["real_code"] = "found by running the real code on small concrete arguments: for this input it returns the values above, which falsify the clause"
		return info, true
	}
	info["replay_skipped"] = "no model from the solvers and no falsifying input among the small concrete arguments tried"
	return info, false
}

func firstLine(s string) string {
	return strings.TrimSpace(strings.SplitN(strings.TrimSpace(s), "\n", 2)[0])
}

// substByString replaces every subterm whose printed form is a key of m.
func substByString(t *Term, m map[string]*Term) *Term {
	if r, ok := m[t.String()]; ok {
		return r
	}
	if len(t.Args) == 0 {
		return t
	}
	args := make([]*Term, len(t.Args))
	changed := false
	for i, a := range t.Args {
		args[i] = substByString(a, m)
		if args[i] != a {
			changed = true
		}
	}
	if !changed {
		return t
	}
	nt := *t
	nt.Args = args
	return &nt
}

// closedTerm: no constant of the symbolic execution (parameters p.*, locals l.*, merge/havoc/result symbols) is left.
func closedTerm(t *Term) bool {
	ok := true
	var walk func(t *Term, bound map[string]bool)
	walk = func(t *Term, bound map[string]bool) {
		if len(t.Bind) > 0 {
			nb := map[string]bool{}
			for k := range bound {
				nb[k] = true
			}
			for _, b := range t.Bind {
				nb[b.Op] = true
			}
			bound = nb
		}
		if len(t.Args) == 0 && t.Op != "strlit" && !bound[t.Op] && !isNumeral(t.Op) && t.Op != "true" && t.Op != "false" {
			for _, pre := range []string{"p.", "l.", "m.", "h.", "r.", "br!", "sk.", "new.", "map!", "box."} {
				if strings.HasPrefix(t.Op, pre) {
					ok = false
				}
			}
			if strings.Contains(t.Op, "!") {
				ok = false
			}
		}
		for _, a := range t.Args {
			walk(a, bound)
		}
	}
	walk(t, map[string]bool{})
	return ok
}
