package main

import (
	"encoding/json"
	"fmt"
	"os"
	"os/exec"
	"path/filepath"
	"regexp"
	"sort"
	"strconv"
	"strings"
	"time"
)

type PropertyCfg struct {
	Level       string   `json:"level"`
	Funcs       []string `json:"funcs"`
	Lemmas      []string `json:"lemmas"`
	Only        []string `json:"only"`
	Exclude     []string `json:"exclude"`
	Explanation string   `json:"explanation"`
	Assumptions []string `json:"assumptions"`
	Bounded     []BoundedCfg `json:"bounded"`
	DesignRef   string   `json:"design_ref"`
}

type BoundedCfg struct {
	Name     string `json:"name"`
	File     string `json:"file"`     // test file under /verif/bounded (injected by overlay)
	Pkg      string `json:"pkg"`      // package directory relative to /repo (e.g. ./snaps)
	Run      string `json:"run"`      // -run pattern
	Function string `json:"function"` // function(s) it stands in for
	Bound    string `json:"bound"`
	Oracle   string `json:"oracle"`
}

type Finding struct {
	Property   string `json:"property"`
	Tag        string `json:"tag"`
	Status     string `json:"status"` // known | fixed
	Commit     string `json:"commit,omitempty"`
	Obligation string `json:"obligation"` // obligation name (exact) or bounded case id
	What       string `json:"what"`
	Witness    string `json:"witness,omitempty"`
	Demo       string `json:"demo,omitempty"`
	DemoRun    string `json:"demo_run,omitempty"`
	DemoPkg    string `json:"demo_pkg,omitempty"`
	Restricted string `json:"restricted_by,omitempty"`
}

func loadProperties() (map[string]*PropertyCfg, error) {
	data, err := os.ReadFile(filepath.Join(verifDir, "contracts", "properties.json"))
	if err != nil {
		return nil, err
	}
	m := map[string]*PropertyCfg{}
	if err := json.Unmarshal(data, &m); err != nil {
		return nil, fmt.Errorf("properties.json: %v", err)
	}
	return m, nil
}

func loadFindings() ([]*Finding, error) {
	data, err := os.ReadFile(filepath.Join(verifDir, "known-findings.json"))
	if err != nil {
		return nil, err
	}
	var fs []*Finding
	if err := json.Unmarshal(data, &fs); err != nil {
		return nil, fmt.Errorf("known-findings.json: %v", err)
	}
	return fs, nil
}

type violation struct {
	Obligation string
	Replay     string
	NoInput    bool
	Reason     string
}

func matchAny(res []*regexp.Regexp, s string) bool {
	for _, r := range res {
		if r.MatchString(s) {
			return true
		}
	}
	return false
}

func cmdCheck(prop, tier string) int {
	start := time.Now()
	seed := 0
	if v := os.Getenv("VERIF_SEED"); v != "" {
		seed, _ = strconv.Atoi(v)
	}
	if t := os.Getenv("VERIF_TIER"); t != "" && (t == "quick" || t == "thorough") {
		tier = t
	}
	props, err := loadProperties()
	if err != nil {
		fmt.Fprintln(os.Stderr, err)
		return 2
	}
	cfg := props[prop]
	if cfg == nil {
		fmt.Fprintf(os.Stderr, "property %s is not configured\n", prop)
		return 2
	}
	findings, err := loadFindings()
	if err != nil {
		fmt.Fprintln(os.Stderr, err)
		return 2
	}
	u, err := loadUniverse(repoDir, specFiles())
	var viols []violation
	replayDir := filepath.Join(outDir, "replays", prop)
	os.RemoveAll(replayDir)
	os.MkdirAll(replayDir, 0o755)
	writeReplay := func(name string, content map[string]any) string {
		fn := filepath.Join(replayDir, mangle(name)+".json")
		data, _ := json.MarshalIndent(content, "", " ")
		os.WriteFile(fn, data, 0o644)
		return fn
	}
	if err != nil {
		// the tree does not load (does not compile with the verif tag, or a contract file is malformed)
		fn := writeReplay("load", map[string]any{"property": prop, "obligation": "load", "error": err.Error()})
		fmt.Printf("VIOLATION property=%s replay=%s no-failing-input-found\n", prop, fn)
		writeEvidence(prop, tier, seed, cfg, nil, nil, nil, nil, 1, time.Since(start).Seconds(), nil, nil)
		return 1
	}
	p, err := buildPrelude(u)
	if err != nil {
		fn := writeReplay("prelude", map[string]any{"property": prop, "obligation": "prelude", "error": err.Error()})
		fmt.Printf("VIOLATION property=%s replay=%s no-failing-input-found\n", prop, fn)
		writeEvidence(prop, tier, seed, cfg, nil, nil, nil, nil, 1, time.Since(start).Seconds(), nil, nil)
		return 1
	}
	var only, exclude []*regexp.Regexp
	for _, s := range cfg.Only {
		only = append(only, regexp.MustCompile(s))
	}
	for _, s := range cfg.Exclude {
		exclude = append(exclude, regexp.MustCompile(s))
	}
	var obls []*Obligation
	var funcsUnder []map[string]any
	assumptions := map[string]bool{}
	trusted := map[string]bool{}
	// thorough tier: the transitive closure of the callees (functions of the repository that are called by contract) is
	// verified in full as well - a clause of a property rests on every contract its functions use
	listed := map[string]bool{}
	for _, n := range cfg.Funcs {
		listed[n] = true
	}
	work := append([]string(nil), cfg.Funcs...)
	for wi := 0; wi < len(work); wi++ {
		n := work[wi]
		isCallee := wi >= len(cfg.Funcs)
		fi := u.Funcs[n]
		c := u.Specs.Contracts[n]
		if isCallee && (fi == nil || c == nil || c.NoBody || c.Trusted || fi.Body == nil) {
			continue
		}
		if fi == nil && c != nil {
			// the function no longer exists. Nothing under contract can still call it (the call would not compile), so the
			// properties are decided by the functions that remain; the removal is recorded, not reported as a violation
			assumptions["listed function "+n+" no longer exists in the tree (removed or renamed): its contract is unused"] = true
			continue
		}
		if fi == nil || c == nil {
			fn := writeReplay(n+"#stale-contract", map[string]any{"property": prop, "obligation": n + "#stale-contract", "error": "function or contract not found (renamed or removed)"})
			viols = append(viols, violation{Obligation: n + "#stale-contract", Replay: fn, NoInput: true})
			continue
		}
		os_, x, err := verifyFunction(u, fi, c)
		if err != nil {
			fn := writeReplay(n+"#stale-contract", map[string]any{"property": prop, "obligation": n + "#stale-contract", "error": err.Error()})
			viols = append(viols, violation{Obligation: n + "#stale-contract", Replay: fn, NoInput: true, Reason: err.Error()})
			continue
		}
		cnt := 0
		// a postcondition is proved with the earlier postconditions of the same return as hypotheses: whenever one is
		// selected by the filters, the earlier ones are selected too (otherwise a broken earlier clause would be assumed)
		needUpTo := map[string]int{}
		selected := func(o *Obligation) bool {
			if !isCallee && len(only) > 0 && !matchAny(only, o.Name) && o.Kind != "vacuity" {
				return false
			}
			return !matchAny(exclude, o.Name)
		}
		for _, o := range os_ {
			if o.Kind == "ensures" && o.EnsIdx > 0 && selected(o) && o.EnsIdx > needUpTo[o.RetTag] {
				needUpTo[o.RetTag] = o.EnsIdx
			}
		}
		// loop invariants are assumed after their loops: when a postcondition or frame of the function is selected, the
		// obligations that establish and preserve its invariants are selected too
		anyPost := false
		for _, o := range os_ {
			if (o.Kind == "ensures" || o.Kind == "frame") && selected(o) {
				anyPost = true
			}
		}
		isLoopObl := func(o *Obligation) bool {
			return strings.HasPrefix(o.Kind, "loop") && (strings.HasSuffix(o.Kind, ".init") || strings.HasSuffix(o.Kind, ".pres"))
		}
		for _, o := range os_ {
			if !selected(o) && !(o.Kind == "ensures" && o.EnsIdx > 0 && o.EnsIdx < needUpTo[o.RetTag]) && !(anyPost && isLoopObl(o) && !matchAny(exclude, o.Name)) {
				continue
			}
			obls = append(obls, o)
			cnt++
		}
		funcsUnder = append(funcsUnder, map[string]any{"function": n, "file": fi.File, "mode": x.mode, "obligations": cnt, "included_as_callee": isCallee,
			"statements_seen": x.stmtsSeen, "statements_lowered": x.stmtsLowered, "calls_dropped_by_rule": x.stmtsDropped})
		for a := range x.assumptions {
			assumptions[a] = true
		}
		for cal := range x.calleesUsed {
			if tier == "thorough" && !listed[cal] {
				listed[cal] = true
				work = append(work, cal)
			}
			if cc := u.Specs.Contracts[cal]; cc != nil && (cc.NoBody || cc.Trusted) {
				trusted["assumed contract: "+cal] = true
			} else {
				trusted["callee by contract: "+cal] = true
			}
		}
	}
	lemmaSet := map[string]bool{}
	for _, l := range cfg.Lemmas {
		lemmaSet[l] = true
	}
	for li, l := range u.Specs.Lemmas {
		if l.Axiom {
			continue
		}
		tagged := false
		for _, pp := range l.Props {
			if pp == prop {
				tagged = true
			}
		}
		if !tagged && !lemmaSet[l.Name] {
			continue
		}
		o, err := lemmaObligation(u, p, l, li)
		if err != nil {
			fn := writeReplay("lemma."+l.Name, map[string]any{"property": prop, "obligation": "lemma." + l.Name, "error": err.Error()})
			viols = append(viols, violation{Obligation: "lemma." + l.Name, Replay: fn, NoInput: true})
			continue
		}
		obls = append(obls, o)
		if v := lemmaVacuity(o, l); v != nil {
			obls = append(obls, v)
		}
	}
	timeout := 20
	thorough := tier == "thorough"
	if thorough {
		timeout = 120
	}
	runObligations(p, obls, timeout, thorough)
	// every lemma that was available as an axiom in some query must itself be proved in this run
	haveLemma := map[string]bool{}
	for _, o := range obls {
		if o.Kind == "lemma" {
			haveLemma[strings.TrimPrefix(o.Name, "lemma.")] = true
		}
	}
	for round := 0; round < 8; round++ {
		need := map[string]bool{}
		for _, o := range obls {
			for _, ln := range o.LemmasUsed {
				if !haveLemma[ln] {
					need[ln] = true
				}
			}
		}
		if len(need) == 0 {
			break
		}
		var extra []*Obligation
		for li, l := range u.Specs.Lemmas {
			if l.Axiom || !need[l.Name] {
				continue
			}
			haveLemma[l.Name] = true
			o, err := lemmaObligation(u, p, l, li)
			if err != nil {
				fn := writeReplay("lemma."+l.Name, map[string]any{"property": prop, "obligation": "lemma." + l.Name, "error": err.Error()})
				viols = append(viols, violation{Obligation: "lemma." + l.Name, Replay: fn, NoInput: true})
				continue
			}
			extra = append(extra, o)
			if v := lemmaVacuity(o, l); v != nil {
				extra = append(extra, v)
			}
		}
		runObligations(p, extra, timeout, thorough)
		obls = append(obls, extra...)
	}

	// classify
	known := map[string]*Finding{}
	for _, f := range findings {
		if f.Property == prop && f.Status == "known" {
			known[f.Obligation] = f
		}
	}
	discharged := 0
	counted := 0
	byBackend := map[string]int{}
	solverTime := 0.0
	var samples []any
	usedAxioms := map[string]bool{}
	var knownLines []string
	nReplays := 0
	replayStart := time.Now()
	for _, o := range obls {
		ok := obligationOK(o)
		solverTime += o.Res.Seconds
		isCanary := o.Canary != "" || known[o.Name] != nil
		if isCanary {
			if !ok {
				f := known[o.Name]
				if f == nil {
					// canary lemma without a record in the known-findings file: report it
					fn := writeReplay(o.Name, replayContent(prop, o))
					viols = append(viols, violation{Obligation: o.Name, Replay: fn, NoInput: true})
					continue
				}
				if f.Demo == "" {
					// without a demonstration the failing canary itself is the evidence that the finding persists
					knownLines = append(knownLines, fmt.Sprintf("KNOWN-FINDING: property=%s %s %s", prop, f.Tag, f.What))
				}
			}
			continue // canaries are not counted in obligations/discharged
		}
		counted++
		if ok {
			discharged++
			byBackend[o.Res.Solver]++
			if len(samples) < 4 && o.Kind != "vacuity" && o.Kind != "cover" {
				samples = append(samples, map[string]any{"obligation": o.Name, "clause": o.Text, "result": o.Res.Status, "solver": o.Res.Solver,
					"seconds": round3(o.Res.Seconds), "smt_bytes": len(o.Res.Query)})
			}
			continue
		}
		content := replayContent(prop, o)
		noInput := true
		// try to obtain a small model
		if o.Res.Status != "error" && !o.ExpectSat && len(viols) < 3 {
			for _, cap := range []int{4, 16} {
				q := p.buildQuery(o, true, cap)
				r := solveWith(q, o.Mode, 5, false, false, solverConfigs(o.Mode, 5, false)[:2])
				if r.Status == "sat" {
					content["model_cap"] = cap
					content["model"] = truncate(r.Output, 20000)
					break
				}
			}
		}
		if o.Replay != nil && o.Res.Status != "error" && !o.ExpectSat && nReplays < 4 && time.Since(replayStart) < 120*time.Second {
			nReplays++
			if extra, confirmed := tryReplay(p, o); extra != nil {
				for k, v := range extra {
					content[k] = v
				}
				if confirmed {
					noInput = false
					content["confirmed_on_real_code"] = true
				}
			}
		}
		fn := writeReplay(o.Name, content)
		viols = append(viols, violation{Obligation: o.Name, Replay: fn, NoInput: noInput})
	}
	_ = usedAxioms
	// bounded stand-ins
	var boundedReports []any
	for _, b := range cfg.Bounded {
		rep, bviol := runBounded(prop, b, tier, seed, findings, writeReplay)
		boundedReports = append(boundedReports, rep)
		viols = append(viols, bviol.viols...)
		knownLines = append(knownLines, bviol.known...)
	}
	// findings with demonstrations (known): run the demos (one go test invocation) to confirm that the recorded
	// witnesses still fail on the real code; a finding whose demo passes is no longer reported
	{
		var demos []*Finding
		for _, f := range findings {
			if f.Property == prop && f.Status == "known" && f.Demo != "" && !strings.HasPrefix(f.Obligation, "bounded:") {
				demos = append(demos, f)
			}
		}
		if len(demos) > 0 {
			failing := runDemos(demos)
			for _, f := range demos {
				line := fmt.Sprintf("KNOWN-FINDING: property=%s %s %s", prop, f.Tag, f.What)
				if failing[f.Tag] {
					knownLines = append(knownLines, line)
				} else if known[f.Obligation] == nil || !strings.HasPrefix(f.Obligation, "lemma.") {
					// demo passes now: drop a line that a canary may have produced only if there is no failing canary
				}
			}
		}
	}
	sort.Strings(knownLines)
	seen := map[string]bool{}
	for _, l := range knownLines {
		if !seen[l] {
			fmt.Println(l)
			seen[l] = true
		}
	}
	for _, v := range viols {
		line := fmt.Sprintf("VIOLATION property=%s replay=%s", prop, v.Replay)
		if v.NoInput {
			line += " no-failing-input-found"
		}
		fmt.Println(line)
		fmt.Fprintf(os.Stderr, "  failed obligation: %s %s\n", v.Obligation, v.Reason)
	}
	var tb []string
	for t := range trusted {
		tb = append(tb, t)
	}
	sort.Strings(tb)
	var as []string
	for a := range assumptions {
		as = append(as, a)
	}
	as = append(as, cfg.Assumptions...)
	sort.Strings(as)
	// the slowest obligations of this run (a discharged obligation close to the timeout is a stability risk)
	type slowOb struct {
		Name string
		Sec  float64
		By   string
	}
	var slow []slowOb
	for _, o := range obls {
		slow = append(slow, slowOb{o.Name, o.Res.Seconds, o.Res.Solver})
	}
	sort.Slice(slow, func(i, j int) bool { return slow[i].Sec > slow[j].Sec })
	var slowest []any
	for i := 0; i < len(slow) && i < 5; i++ {
		slowest = append(slowest, map[string]any{"obligation": slow[i].Name, "seconds": round3(slow[i].Sec), "solver": slow[i].By})
	}
	var retried []string
	for _, o := range obls {
		if o.Retried {
			retried = append(retried, o.Name+" -> "+o.Res.Status)
		}
	}
	extraCov := map[string]any{"obligations": counted, "discharged": discharged, "solver_time_s": round3(solverTime), "slowest_obligations": slowest, "retried_after_timeout": retried, "bounded_checks": boundedReports, "known_findings": knownLines}
	if thorough && len(viols) == 0 && os.Getenv("GOVC_REPO") == "" {
		// must-fail self-test of this check: up to three mutants of the corpus that name this property are applied to a
		// scratch copy of the tree and the quick check must report them (guards against a check that has lost its teeth)
		out, _ := runCmdTimeout(900, "python3", filepath.Join(verifDir, "mutants", "mutants.py"), "--prop="+prop, "--max=3", "--json")
		var mf []map[string]string
		for _, l := range strings.Split(out, "\n") {
			if strings.HasPrefix(strings.TrimSpace(l), "[") {
				json.Unmarshal([]byte(l), &mf)
			}
		}
		extraCov["must_fail_selftest"] = mf
		for _, m := range mf {
			if m["status"] != "CAUGHT" {
				fmt.Printf("SELFTEST-WARNING property=%s mutant %s was not reported by the quick check (%s)\n", prop, m["mutant"], m["status"])
			}
		}
	}
	writeEvidence(prop, tier, seed, cfg, funcsUnder, byBackend, samples, tb, len(viols), time.Since(start).Seconds(), extraCov, as)
	fmt.Fprintf(os.Stderr, "%s: %d/%d obligations discharged, %d violations, %.1fs\n", prop, discharged, counted, len(viols), time.Since(start).Seconds())
	if len(viols) > 0 {
		return 1
	}
	return 0
}

func round3(f float64) float64 { return float64(int(f*1000)) / 1000 }

func truncate(s string, n int) string {
	if len(s) > n {
		return s[:n] + "\n...[truncated]"
	}
	return s
}

func replayContent(prop string, o *Obligation) map[string]any {
	return map[string]any{
		"property": prop, "obligation": o.Name, "kind": o.Kind, "clause": o.Text, "contract_position": o.Pos,
		"solver_status": o.Res.Status, "solver_detail": o.Res.Detail, "solver_output": truncate(o.Res.Output, 4000),
		"smt_query": truncate(o.Res.Query, 200000),
		"note": "the obligation is generated from /repo's current source; re-run `govc verify --func " + o.Func + " --dump-obl '" + o.Name + "'` to reproduce",
	}
}

func writeEvidence(prop, tier string, seed int, cfg *PropertyCfg, funcs []map[string]any, byBackend map[string]int, samples []any, trusted []string,
	nviol int, wall float64, extra map[string]any, assumptions []string) {
	level := cfg.Level
	if level == "" {
		level = "proof"
	}
	cov := map[string]any{
		"checker_cmd":              fmt.Sprintf("/verif/bin/govc check --property %s --tier %s", prop, tier),
		"trusted_base":             append([]string{"govc VC generator (lowering, WP, SMT printing)", "z3 5.1.0 / z3 4.8.12 / cvc5 1.0 (unsat answers)"}, trusted...),
		"functions_under_contract": funcs,
		"by_backend":               byBackend,
		"samples":                  samples,
		"explanation":              cfg.Explanation,
		"obligations":              0,
		"discharged":               0,
	}
	for k, v := range extra {
		cov[k] = v
	}
	if samples == nil {
		cov["samples"] = []any{}
	}
	ev := map[string]any{
		"property_id": prop, "tier": tier, "seed": seed, "level": level, "coverage": cov,
		"assumptions": append([]string{"int is mathematical (no overflow)", "strings and slices are values", "OS calls succeed or fail cleanly (no partial writes, no transient read faults)", "termination is not proved"}, assumptions...),
		"wall_s":      round3(wall), "violations": nviol,
	}
	os.MkdirAll(filepath.Join(outDir, "evidence"), 0o755)
	data, _ := json.MarshalIndent(ev, "", " ")
	os.WriteFile(filepath.Join(outDir, "evidence", prop+".json"), data, 0o644)
}

// ---------------------------------------------------------------------------
// demonstrations and bounded stand-ins: Go tests injected into the package with -overlay

func goTestOverlay(testFile, pkg, run string, timeout int, extraEnv []string) (string, bool) {
	dir := ensureWorkDir()
	base := filepath.Base(testFile)
	target := filepath.Join(repoDir, pkg, "zz_verif_"+base)
	ov := map[string]any{"Replace": map[string]string{target: testFile}}
	data, _ := json.Marshal(ov)
	ovFile := filepath.Join(dir, "ov_"+mangle(base)+".json")
	os.WriteFile(ovFile, data, 0o644)
	cmd := exec.Command("go", "test", "-overlay", ovFile, "-vet=off", "-count=1", "-v", "-timeout", fmt.Sprintf("%ds", timeout), "-run", run, "./"+strings.TrimPrefix(pkg, "./"))
	cmd.Dir = repoDir
	cmd.Env = append(os.Environ(), "GOFLAGS=-mod=mod", "GOPROXY=off", "GOSUMDB=off", "GOTOOLCHAIN=local")
	cmd.Env = append(cmd.Env, extraEnv...)
	out, err := cmd.CombinedOutput()
	return string(out), err == nil
}

// runDemos runs the demonstrations of several findings in one test binary; returns tag -> still failing.
func runDemos(fs []*Finding) map[string]bool {
	dir := ensureWorkDir()
	repl := map[string]string{}
	var runs []string
	pkg := "snaps"
	for _, f := range fs {
		if f.DemoPkg != "" {
			pkg = f.DemoPkg
		}
		src := filepath.Join(verifDir, f.Demo)
		repl[filepath.Join(repoDir, pkg, "zz_verif_"+filepath.Base(src))] = src
		runs = append(runs, f.DemoRun)
	}
	data, _ := json.Marshal(map[string]any{"Replace": repl})
	ovFile := filepath.Join(dir, "ov_demos.json")
	os.WriteFile(ovFile, data, 0o644)
	cmd := exec.Command("go", "test", "-overlay", ovFile, "-vet=off", "-count=1", "-timeout", "180s", "-v", "-run", "^("+strings.Join(runs, "|")+")$", "./"+pkg)
	cmd.Dir = repoDir
	cmd.Env = append(os.Environ(), "GOFLAGS=-mod=mod", "GOPROXY=off", "GOSUMDB=off", "GOTOOLCHAIN=local")
	out, _ := cmd.CombinedOutput()
	res := map[string]bool{}
	for _, f := range fs {
		if strings.Contains(string(out), "--- FAIL: "+f.DemoRun+" ") {
			res[f.Tag] = true
		}
	}
	return res
}

// runDemo runs the demonstration of a finding; returns true if it still fails on the real code.
func runDemo(f *Finding) (bool, string) {
	pkg := f.DemoPkg
	if pkg == "" {
		pkg = "snaps"
	}
	out, ok := goTestOverlay(filepath.Join(verifDir, f.Demo), pkg, "^"+f.DemoRun+"$", 120, nil)
	if strings.Contains(out, "[build failed]") || strings.Contains(out, "[setup failed]") {
		return false, out
	}
	return !ok, out
}

type boundedResult struct {
	viols []violation
	known []string
}

// runBounded runs a bounded stand-in. The test prints lines "CASE <id> ok|FAIL <detail>" and a final
// "SUMMARY cases=<n> distinct=<n>".
func runBounded(prop string, b BoundedCfg, tier string, seed int, findings []*Finding, writeReplay func(string, map[string]any) string) (map[string]any, boundedResult) {
	var res boundedResult
	out, _ := goTestOverlay(filepath.Join(verifDir, "bounded", b.File), b.Pkg, b.Run, 600,
		[]string{"VERIF_TIER=" + tier, fmt.Sprintf("VERIF_SEED=%d", seed)})
	cases, fails := 0, 0
	knownCases := map[string]*Finding{}
	for _, f := range findings {
		if f.Property == prop && f.Status == "known" && strings.HasPrefix(f.Obligation, "bounded:"+b.Name+":") {
			knownCases[strings.TrimPrefix(f.Obligation, "bounded:"+b.Name+":")] = f
		}
	}
	summary := ""
	ran := false
	for _, line := range strings.Split(out, "\n") {
		line = strings.TrimSpace(line)
		if strings.HasPrefix(line, "SUMMARY ") {
			summary = line
			ran = true
		}
		if !strings.HasPrefix(line, "CASE ") {
			continue
		}
		cases++
		parts := strings.SplitN(line, " ", 4)
		if len(parts) >= 3 && parts[2] == "FAIL" {
			fails++
			class := parts[1]
			if i := strings.Index(class, "/"); i >= 0 {
				class = class[:i]
			}
			if f, ok := knownCases[class]; ok {
				res.known = append(res.known, fmt.Sprintf("KNOWN-FINDING: property=%s %s %s", prop, f.Tag, f.What))
				continue
			}
			fn := writeReplay("bounded."+b.Name+"."+parts[1], map[string]any{"property": prop, "obligation": "bounded:" + b.Name + ":" + parts[1], "case": line,
				"replay_cmd": fmt.Sprintf("go test -overlay <ov mapping %s> -run '%s' %s", b.File, b.Run, b.Pkg)})
			res.viols = append(res.viols, violation{Obligation: "bounded:" + b.Name + ":" + parts[1], Replay: fn})
		}
	}
	if !ran {
		fn := writeReplay("bounded."+b.Name+".harness", map[string]any{"property": prop, "obligation": "bounded:" + b.Name + ":harness", "output": truncate(out, 8000)})
		res.viols = append(res.viols, violation{Obligation: "bounded:" + b.Name + ":harness", Replay: fn, NoInput: true, Reason: "bounded stand-in did not run to completion"})
	}
	rep := map[string]any{"name": b.Name, "function": b.Function, "bound": b.Bound, "oracle": b.Oracle, "cases": cases, "failing_cases": fails, "summary": summary, "label": "bounded (not counted as discharged)"}
	return rep, res
}
