package main

import (
	"fmt"
	"go/ast"
	"go/token"
	"go/types"
	"strings"
)

func (x *Exec) evalCall(s *State, call *ast.CallExpr) []*Term {
	fun := ast.Unparen(call.Fun)
	// conversion
	if tv, ok := x.info.Types[fun]; ok && tv.IsType() {
		if len(call.Args) != 1 {
			x.fail(call, "conversion with %d args", len(call.Args))
		}
		return []*Term{x.evalConversion(s, call, tv.Type)}
	}
	// generic instantiation f[T](...)
	if ix, ok := fun.(*ast.IndexExpr); ok {
		if _, isFn := x.info.TypeOf(ix.X).(*types.Signature); isFn {
			fun = ix.X
		}
	}
	switch f := fun.(type) {
	case *ast.Ident:
		switch obj := x.info.Uses[f].(type) {
		case *types.Builtin:
			return x.evalBuiltin(s, call, obj.Name())
		case *types.Func:
			return x.callFunc(s, call, obj, nil)
		case *types.Var:
			return x.callFuncValue(s, call, obj)
		}
	case *ast.SelectorExpr:
		if sel := x.info.Selections[f]; sel != nil {
			if sel.Kind() == types.MethodVal {
				m := sel.Obj().(*types.Func)
				recv := x.evalReceiver(s, f, sel)
				return x.callFunc(s, call, m, recv)
			}
			if sel.Kind() == types.FieldVal {
				// call through a func-typed field (c.callback(...), m.IsJunk(...))
				fv := x.evalSelector(s, f)
				return x.callOpaqueFn(s, call, fv, "field."+f.Sel.Name)
			}
		} else if obj, ok := x.info.Uses[f.Sel].(*types.Func); ok {
			return x.callFunc(s, call, obj, nil)
		}
	case *ast.FuncLit:
		x.fail(call, "immediately-invoked function literal")
	}
	x.fail(call, "unsupported call target %T", fun)
	return nil
}

func (x *Exec) evalReceiver(s *State, f *ast.SelectorExpr, sel *types.Selection) *Term {
	base := x.eval(s, f.X)
	t := x.info.TypeOf(f.X)
	path := sel.Index()
	for _, idx := range path[:len(path)-1] {
		n := namedOf(t)
		st := n.Underlying().(*types.Struct)
		fld := st.Field(idx)
		fv := x.u.fieldVar(n, fld.Name())
		base = Select(x.getSt(s, fv, arraySort(SRef, x.u.sortOf(fld.Type()))), base)
		t = fld.Type()
	}
	return withType(base, t)
}

func (x *Exec) evalConversion(s *State, call *ast.CallExpr, to types.Type) *Term {
	arg := call.Args[0]
	from := x.info.TypeOf(arg)
	v := x.eval(s, arg)
	ts := x.u.sortOf(to)
	if ts == v.Sort {
		if isByteSlice(to) && !isByteSlice(from) {
			// string -> []byte allocates
			return x.freshBytes(s, v, to)
		}
		return withType(v, to)
	}
	if ts == SAny {
		return x.boxTyped(s, v, from)
	}
	if ts == SStr && v.Sort == SInt {
		return mk("runestr", SStr, v)
	}
	if ts == SStr && v.Sort == SRef {
		// []byte(nil)
		return withType(StrLit(""), to)
	}
	if ts == SInt && v.Sort == "Real" {
		return mk("to_int", SInt, v)
	}
	x.fail(call, "unsupported conversion %s -> %s", from, to)
	return nil
}

func (x *Exec) evalBuiltin(s *State, call *ast.CallExpr, name string) []*Term {
	switch name {
	case "len":
		v := x.eval(s, call.Args[0])
		t := x.info.TypeOf(call.Args[0])
		if _, isMap := t.Underlying().(*types.Map); isMap {
			mt := t.Underlying().(*types.Map)
			dn, _, ks, _ := x.u.mapVars(mt)
			dom := Select(x.getSt(s, dn, arraySort(SRef, arraySort(ks, SBool))), v)
			c := mk("card_"+mangle(ks), SInt, dom)
			return []*Term{Ite(Eq(v, V("null", SRef)), Num(0), c)}
		}
		if v.Sort == SStr {
			return []*Term{mk("s.len", SInt, v)}
		}
		if isSliceSort(v.Sort) {
			return []*Term{sliceLen(v)}
		}
		x.fail(call, "len of sort %s", v.Sort)
	case "cap":
		v := x.eval(s, call.Args[0])
		return []*Term{mk("cap_"+mangle(v.Sort), SInt, v)}
	case "append":
		sl := x.eval(s, call.Args[0])
		st, _ := x.info.TypeOf(call).Underlying().(*types.Slice)
		if sl.Sort == SStr {
			// append([]byte, ...)
			r := sl
			if call.Ellipsis != token.NoPos {
				r = mk("s.cat", SStr, r, x.eval(s, call.Args[1]))
			} else {
				for _, a := range call.Args[1:] {
					r = mk("s.cat", SStr, r, mk("bytestr", SStr, x.eval(s, a)))
				}
			}
			return []*Term{withType(r, x.info.TypeOf(call))}
		}
		if sl.Sort == SRef || !isSliceSort(sl.Sort) {
			// append(nil-typed) : use result type
			sl = x.u.zero(x.u.sortOf(x.info.TypeOf(call)))
		}
		if call.Ellipsis != token.NoPos {
			other := x.eval(s, call.Args[1])
			// result: len = len(a)+len(b); pointwise definition
			n := Add(sliceLen(sl), sliceLen(other))
			el := x.u.sliceElem(sl.Sort)
			arr := x.fresh("app", arraySort(SInt, el))
			k := V("k?", SInt)
			s.assume(Forall([]*Term{k}, Implies(And(Le(Num(0), k), Lt(k, n)),
				Eq(Select(arr, k), Ite(Lt(k, sliceLen(sl)), Select(x.u.sliceArr(sl), k), Select(x.u.sliceArr(other), Sub(k, sliceLen(sl))))))))
			return []*Term{withType(x.u.mkSlice(sl.Sort, n, arr), x.info.TypeOf(call))}
		}
		n := sliceLen(sl)
		arr := x.u.sliceArr(sl)
		for i, a := range call.Args[1:] {
			var v *Term
			if st != nil {
				v = x.evalForType(s, a, st.Elem())
			} else {
				v = x.eval(s, a)
			}
			arr = Store(arr, Add(n, Num(i)), v)
		}
		res := x.u.mkSlice(sl.Sort, Add(n, Num(len(call.Args)-1)), arr)
		if x.c.Options["slice-elems"] {
			// element-set view: elems(append(s, v...)) = elems(s) with v... added (true of the set of elements below len)
			el := x.u.sliceElem(sl.Sort)
			es := mk("elems_"+mangle(sl.Sort), arraySort(el, SBool), sl)
			for i := range call.Args[1:] {
				es = Store(es, Select(arr, Add(n, Num(i))), True)
			}
			s.assume(Eq(mk("elems_"+mangle(sl.Sort), arraySort(el, SBool), res), es))
		}
		return []*Term{withType(res, x.info.TypeOf(call))}
	case "make":
		t := x.info.TypeOf(call)
		switch ut := t.Underlying().(type) {
		case *types.Map:
			for _, a := range call.Args[1:] {
				x.eval(s, a)
			}
			return []*Term{withType(x.mapNew(s, ut), t)}
		case *types.Slice:
			srt := x.u.sortOf(t)
			n := x.eval(s, call.Args[1])
			if srt == SStr {
				x.fail(call, "make([]byte)")
			}
			x.obligeNoPanic(s, Le(Num(0), n), "make: negative length", call)
			if len(call.Args) == 3 {
				// make([]T, len, cap): cap is not modelled
				x.eval(s, call.Args[2])
			}
			el := x.u.sliceElem(srt)
			arr := &Term{Op: "const-array", Sort: arraySort(SInt, el), Args: []*Term{x.u.zero(el)}}
			r := x.u.mkSlice(srt, n, arr)
			if isNumZero(n) {
				r = x.u.mkSlice(srt, n, x.fresh("emptymake", arraySort(SInt, el)))
			}
			s.assume(Not(mk("isnil_"+srt, SBool, r)))
			return []*Term{withType(r, t)}
		}
		x.fail(call, "unsupported make(%s)", t)
	case "new":
		t := x.info.TypeOf(call.Args[0])
		if _, isTP := types.Unalias(t).(*types.TypeParam); isTP {
			// new(T) for a type parameter: an opaque pointer whose pointee is the zero value of T
			r := x.allocRef(s, "new.T")
			return []*Term{withType(r, x.info.TypeOf(call))}
		}
		if x.isHeapStructType(t) {
			return []*Term{withType(x.newHeapStruct(s, t, nil, nil), x.info.TypeOf(call))}
		}
		r := x.allocRef(s, "new")
		pv, srt := x.u.ptrVar(t)
		x.setSt(s, pv, Store(x.getSt(s, pv, arraySort(SRef, srt)), r, x.u.zero(srt)))
		return []*Term{withType(r, x.info.TypeOf(call))}
	case "delete":
		m := x.eval(s, call.Args[0])
		k := x.eval(s, call.Args[1])
		mt := x.info.TypeOf(call.Args[0]).Underlying().(*types.Map)
		x.mapDelete(s, mt, m, k)
		return nil
	case "clear":
		t := x.info.TypeOf(call.Args[0])
		if mt, ok := t.Underlying().(*types.Map); ok {
			m := x.eval(s, call.Args[0])
			dn, _, ks, _ := x.u.mapVars(mt)
			D := x.getSt(s, dn, arraySort(SRef, arraySort(ks, SBool)))
			x.setSt(s, dn, Store(D, m, &Term{Op: "const-array", Sort: arraySort(ks, SBool), Args: []*Term{False}}))
			return nil
		}
		x.fail(call, "clear of non-map")
	case "panic":
		x.oblige(s, "nopanic", "explicit", False, "explicit panic", "")
		s.assume(False)
		return nil
	case "min", "max":
		a := x.eval(s, call.Args[0])
		b := x.eval(s, call.Args[1])
		if name == "min" {
			return []*Term{Ite(Lt(a, b), a, b)}
		}
		return []*Term{Ite(Lt(b, a), a, b)}
	}
	x.fail(call, "unsupported builtin %s", name)
	return nil
}

// evalArgs evaluates call arguments against a signature, packing variadics and boxing into interfaces.
func (x *Exec) evalArgs(s *State, call *ast.CallExpr, sig *types.Signature) []*Term {
	np := sig.Params().Len()
	var out []*Term
	// f(g()) with multi-value g
	if len(call.Args) == 1 && np > 1 {
		if tup, ok := x.info.TypeOf(call.Args[0]).(*types.Tuple); ok && tup.Len() == np {
			return x.evalMulti(s, call.Args[0])
		}
	}
	for i := 0; i < np; i++ {
		p := sig.Params().At(i)
		if sig.Variadic() && i == np-1 {
			st := p.Type().(*types.Slice)
			if call.Ellipsis != token.NoPos {
				out = append(out, x.eval(s, call.Args[i]))
				break
			}
			srt := x.u.sortOf(p.Type())
			rest := call.Args[i:]
			if srt == SStr {
				x.fail(call, "variadic bytes")
			}
			el := x.u.sliceElem(srt)
			arr := &Term{Op: "const-array", Sort: arraySort(SInt, el), Args: []*Term{x.u.zero(el)}}
			for j, a := range rest {
				v := x.eval(s, a)
				if el == SAny {
					v = x.boxTyped(s, v, x.info.TypeOf(a))
				}
				arr = Store(arr, Num(j), v)
			}
			out = append(out, withType(x.u.mkSlice(srt, Num(len(rest)), arr), types.NewSlice(st.Elem())))
			break
		}
		a := call.Args[i]
		var v *Term
		if id, ok := ast.Unparen(a).(*ast.Ident); ok {
			if _, isNil := x.info.Uses[id].(*types.Nil); isNil {
				v = x.u.zero(x.u.sortOf(p.Type()))
			}
		}
		if v == nil {
			v = x.eval(s, a)
		}
		if x.u.sortOf(p.Type()) == SAny && v.Sort != SAny {
			v = x.boxTyped(s, v, x.info.TypeOf(a))
		}
		out = append(out, withType(v, p.Type()))
	}
	return out
}

func (x *Exec) isDropped(name string) bool {
	for _, d := range x.c.Drops {
		if d == name {
			return true
		}
	}
	return false
}

func (x *Exec) callFunc(s *State, call *ast.CallExpr, f *types.Func, recv *Term) []*Term {
	name := x.u.funcName(f.Origin())
	sig := f.Type().(*types.Signature)
	if sig.TypeParams() != nil && sig.TypeParams().Len() > 0 {
		// call of a generic function: use the signature instantiated at this call site
		if isig, ok := x.info.TypeOf(call.Fun).(*types.Signature); ok && isig != nil && isig.TypeParams() == nil {
			sig = isig
		} else if isig, ok := x.info.TypeOf(call.Fun).(*types.Signature); ok && isig != nil && isig.Params().Len() == sig.Params().Len() {
			sig = isig
		}
	}
	// built-in lowerings
	switch name {
	case "fmt.Sprintf":
		return []*Term{x.sprintf(s, call.Args[0], call.Args[1:])}
	case "fmt.Errorf":
		msg := x.sprintfErr(s, call.Args[0], call.Args[1:])
		e := x.fresh("errorf", SErr)
		s.assume(Neq(e, V("err_nil", SErr)))
		s.assume(Eq(mk("errstr", SStr, e), msg))
		return []*Term{e}
	case "fmt.Fprintf":
		w := x.eval(s, call.Args[0])
		txt := x.sprintf(s, call.Args[1], call.Args[2:])
		return x.writeTo(s, call, call.Args[0], w, txt)
	case "fmt.Fprint", "fmt.Fprintln":
		// operands are rendered with %v; Fprint puts spaces only between operands that are not strings (all operands of the
		// calls in this code base are strings or single values), Fprintln between all and adds a newline
		w := x.eval(s, call.Args[0])
		var parts []*Term
		for i, a := range call.Args[1:] {
			if i > 0 && name == "fmt.Fprintln" {
				parts = append(parts, StrLit(" "))
			}
			if i > 0 && name == "fmt.Fprint" {
				x.fail(call, "fmt.Fprint with several operands")
			}
			parts = append(parts, x.formatArg('v', x.eval(s, a), x.info.TypeOf(a)))
		}
		if name == "fmt.Fprintln" {
			parts = append(parts, StrLit("\n"))
		}
		return x.writeTo(s, call, call.Args[0], w, catAll(parts))
	case "fmt.Println":
		// output to stdout is not part of any contract: modelled as an append to ghost stdout
		var parts []*Term
		for i, a := range call.Args {
			if i > 0 {
				parts = append(parts, StrLit(" "))
			}
			parts = append(parts, x.formatArg('v', x.eval(s, a), x.info.TypeOf(a)))
		}
		parts = append(parts, StrLit("\n"))
		cur := x.getSt(s, "stdout", SStr)
		txt := catAll(parts)
		nw := catTerms(cur, txt)
		x.setSt(s, "stdout", nw)
		// instances of len_cat / len_nonneg (the text ends with a newline): stated here because the relevance filter
		// keeps axioms by the syntactic shape of their triggers
		s.assume(Eq(mk("s.len", SInt, nw), Add(mk("s.len", SInt, cur), mk("s.len", SInt, txt))))
		s.assume(Le(Num(1), mk("s.len", SInt, txt)))
		return []*Term{x.fresh("n", SInt), V("err_nil", SErr)}
	case "fmt.Printf", "fmt.Print", "log.Printf", "log.Println", "log.Print":
		// diagnostic output: arguments are evaluated (their obligations count), the text goes to the ghost stdout
		for _, a := range call.Args {
			x.evalMulti(s, a)
		}
		cur := x.getSt(s, "stdout", SStr)
		nw := catTerms(cur, x.fresh("printed", SStr))
		x.setSt(s, "stdout", nw)
		s.assume(Le(mk("s.len", SInt, cur), mk("s.len", SInt, nw)))
		if strings.HasPrefix(name, "fmt.") {
			return []*Term{x.fresh("n", SInt), V("err_nil", SErr)}
		}
		return nil
	case "io.WriteString":
		w := x.eval(s, call.Args[0])
		txt := x.eval(s, call.Args[1])
		return x.writeTo(s, call, call.Args[0], w, txt)
	case "slices.SortFunc":
		// sorts in place: modelled as an assignment of a sorted permutation to the slice expression
		old := x.eval(s, call.Args[0])
		cmp := x.eval(s, call.Args[1])
		r := x.fresh("sorted", old.Sort)
		r.GoType = old.GoType
		s.assume(Eq(sliceLen(r), sliceLen(old)))
		s.assume(mk("isPerm_"+mangle(old.Sort), SBool, old, r))
		// the permutation made explicit: r[k] == old[perm[k]], old[e] == r[inv[e]], perm and inv mutually inverse on 0..len
		{
			pa := x.fresh("sortperm", arraySort(SInt, SInt))
			ia := x.fresh("sortinv", arraySort(SInt, SInt))
			k := V("k!sp", SInt)
			n := sliceLen(old)
			inR := And(Le(Num(0), k), Lt(k, n))
			pk := Select(pa, k)
			ik := Select(ia, k)
			f1 := Forall([]*Term{k}, Implies(inR, And(Le(Num(0), pk), Lt(pk, n), Eq(Select(x.u.sliceArr(r), k), Select(x.u.sliceArr(old), pk)), Eq(Select(ia, pk), k))))
			f1.Pats = [][]*Term{{Select(x.u.sliceArr(r), k)}}
			f2 := Forall([]*Term{k}, Implies(inR, And(Le(Num(0), ik), Lt(ik, n), Eq(Select(x.u.sliceArr(old), k), Select(x.u.sliceArr(r), ik)), Eq(Select(pa, ik), k))))
			f2.Pats = [][]*Term{{Select(x.u.sliceArr(old), k)}}
			s.assume(f1)
			s.assume(f2)
		}
		s.assume(mk("isSortedBy_"+mangle(old.Sort), SBool, cmp, r))
		x.assignTo(s, call.Args[0], r)
		x.assumptions["slices.SortFunc is modelled as assigning a sorted permutation to its argument (sortedness w.r.t. cmp holds only if cmp is a strict weak order)"] = true
		return nil
	case "slices.IsSortedFunc":
		v := x.eval(s, call.Args[0])
		cmp := x.eval(s, call.Args[1])
		return []*Term{mk("isSortedBy_"+mangle(v.Sort), SBool, cmp, v)}
	case "errors.Is":
		// the sentinel errors of this code base are never wrapped (checked by the census in selfcheck)
		a := x.eval(s, call.Args[0])
		b := x.eval(s, call.Args[1])
		x.assumptions["errors.Is(err, target) is modelled as err == target (sentinels are never wrapped)"] = true
		return []*Term{Eq(a, b)}
	}
	c := x.u.Specs.Contracts[name]
	if c == nil {
		if x.isDropped(name) {
			x.stmtsDropped++
			var outs []*Term
			for i := 0; i < sig.Results().Len(); i++ {
				outs = append(outs, withType(x.fresh("dropped."+f.Name(), x.u.sortOf(sig.Results().At(i).Type())), sig.Results().At(i).Type()))
			}
			for _, a := range call.Args {
				x.eval(s, a)
			}
			return outs
		}
		if cfi := x.u.Funcs[name]; cfi != nil && cfi.Body != nil && cfi.Lit == nil {
			// a function of the repository without a contract (e.g. a helper extracted by a refactor): its body is executed
			// in place when it is simple enough (no loops, defers, function literals, recursion)
			if outs, ok := x.inlineFunc(s, call, cfi, sig, recv); ok {
				return outs
			}
		}
		x.fail(call, "no contract for callee %s", name)
	}
	args := x.evalArgs(s, call, sig)
	outs := x.callByContract(s, c, name, sig, recv, args, nil, call)
	if name == "bufio.(*Scanner).Bytes" && len(outs) == 1 && recv != nil {
		// the token is borrowed from the scanner: it is valid until the next Scan on the same scanner
		gen := Select(x.getSt(s, "scgen", arraySort(SRef, SInt)), recv)
		if x.borrow == nil {
			x.borrow = map[string]borrowInfo{}
		}
		x.borrow[outs[0].String()] = borrowInfo{scanner: recv, gen: gen}
	}
	return outs
}

func (x *Exec) sprintfErr(s *State, format ast.Expr, args []ast.Expr) *Term {
	// %w is treated like %v
	tv := x.info.Types[format]
	if tv.Value != nil {
		f := strings.ReplaceAll(stringConst(tv), "%w", "%v")
		pieces, _, err := parseFormat(f)
		if err == nil {
			var parts []*Term
			for _, p := range pieces {
				if p.verb == 0 {
					parts = append(parts, StrLit(p.lit))
				} else {
					parts = append(parts, x.formatArg(p.verb, x.eval(s, args[p.arg]), x.info.TypeOf(args[p.arg])))
				}
			}
			return catAll(parts)
		}
	}
	return x.fresh("errmsg", SStr)
}

func stringConst(tv types.TypeAndValue) string {
	s := tv.Value.ExactString()
	// ExactString is quoted
	var out string
	fmt.Sscanf(s, "%q", &out)
	return out
}

// writeTo models writing text to an io.Writer-like object.
func (x *Exec) writeTo(s *State, call *ast.CallExpr, wExpr ast.Expr, w, txt *Term) []*Term {
	wt := x.info.TypeOf(wExpr)
	if n := namedOf(wt); n != nil && x.u.namedKey(n) == "os.File" {
		c := x.u.Specs.Contracts["os.(*File).WriteString"]
		if c == nil {
			x.fail(call, "no contract for os.(*File).WriteString")
		}
		outs := x.callByContractNamed(s, c, "os.(*File).WriteString", []string{"f", "s"}, []*Term{w, txt}, []types.Type{wt, types.Typ[types.String]},
			[]string{"n", "err"}, []string{SInt, SErr}, call)
		if x.discardCall == call && len(outs) == 2 {
			// the code ignores the error of this write: the analysis follows only the run in which it succeeds
			s.assume(Eq(outs[1], V("err_nil", SErr)))
			x.assumptions["a formatted write to a file whose error result the code discards (fmt.Fprintf in examineSnaps) is assumed to succeed"] = true
		}
		return outs
	}
	cur := x.getSt(s, "wbuf", arraySort(SRef, SStr))
	x.setSt(s, "wbuf", Store(cur, w, catTerms(Select(cur, w), txt)))
	return []*Term{mk("s.len", SInt, txt), V("err_nil", SErr)}
}

// callFuncValue: call through a func-typed variable.
func (x *Exec) callFuncValue(s *State, call *ast.CallExpr, v *types.Var) []*Term {
	sig := v.Type().Underlying().(*types.Signature)
	// local closure
	if fi, ok := x.closureVar[v]; ok {
		c := x.u.Specs.Contracts[fi.Name]
		if c == nil {
			// a local helper closure without contract and without loops: executed in place (it reads the captured
			// variables as they are at the call, which is what capture by reference means)
			if outs, ok := x.inlineFunc(s, call, fi, sig, nil); ok {
				return outs
			}
			x.fail(call, "no contract for closure %s", fi.Name)
		}
		args := x.evalArgs(s, call, sig)
		return x.callByContract(s, c, fi.Name, sig, nil, args, fi, call)
	}
	// self-reference inside a recursive closure
	if x.fi.Lit != nil {
		for _, cv := range x.fi.Captured {
			if cv == v {
				// captured func variable: is it the variable this literal is assigned to?
				if x.fi.Outer != nil {
					c := x.u.Specs.Contracts[x.fi.Name]
					if c != nil && x.isSelfVar(v) {
						args := x.evalArgs(s, call, sig)
						return x.callByContract(s, c, x.fi.Name, sig, nil, args, x.fi, call)
					}
				}
			}
		}
	}
	// local variable that is only ever assigned named functions: case split over the candidates
	if cands := x.funcCandidates(v); len(cands) > 0 {
		fv := x.evalVar(s, v)
		args := x.evalArgs(s, call, sig)
		var outs []*State
		var results [][]*Term
		for _, f := range cands {
			name := x.u.funcName(f)
			c := x.u.Specs.Contracts[name]
			if c == nil {
				x.fail(call, "no contract for candidate callee %s of %s", name, v.Name())
			}
			b := s.clone()
			b.assume(Eq(fv, V("fn."+name, SFn)))
			r := x.callByContract(b, c, name, sig, nil, args, nil, call)
			outs = append(outs, b)
			results = append(results, r)
		}
		// the variable holds one of the candidates
		var alts []*Term
		for _, f := range cands {
			alts = append(alts, Eq(fv, V("fn."+x.u.funcName(f), SFn)))
		}
		x.oblige(s, "fnvalue", v.Name(), Or(alts...), "function variable holds one of its syntactic candidates", "")
		// merge: results become fresh symbols constrained per branch
		merged := x.merge(outs)[0]
		final := make([]*Term, sig.Results().Len())
		for i := range final {
			rs := x.u.sortOf(sig.Results().At(i).Type())
			final[i] = withType(x.fresh("r."+v.Name(), rs), sig.Results().At(i).Type())
			for j, f := range cands {
				merged.assume(Implies(Eq(fv, V("fn."+x.u.funcName(f), SFn)), Eq(final[i], results[j][i])))
			}
		}
		*s = *merged
		return final
	}
	// function-typed parameter / variable with a named contract "<func>.<var>"
	name := x.fi.Name + "." + v.Name()
	if c := x.u.Specs.Contracts[name]; c != nil {
		args := x.evalArgs(s, call, sig)
		x.fnValueOfCall = x.evalVar(s, v)
		defer func() { x.fnValueOfCall = nil }()
		return x.callByContract(s, c, name, sig, nil, args, nil, call)
	}
	fv := x.evalVar(s, v)
	return x.callOpaqueFn(s, call, fv, v.Name())
}

func (x *Exec) evalVar(s *State, v *types.Var) *Term {
	if t, ok := s.vars[v]; ok {
		return t
	}
	return x.fresh("fnvar."+v.Name(), SFn)
}

// isSelfVar: v is the variable the current function literal was assigned to in the outer function.
func (x *Exec) isSelfVar(v *types.Var) bool {
	found := false
	ast.Inspect(x.fi.Outer.Body, func(n ast.Node) bool {
		as, ok := n.(*ast.AssignStmt)
		if !ok || len(as.Lhs) != 1 || len(as.Rhs) != 1 {
			return true
		}
		if fl, ok := as.Rhs[0].(*ast.FuncLit); ok && fl == x.fi.Lit {
			if id, ok := as.Lhs[0].(*ast.Ident); ok {
				if x.info.Uses[id] == v || x.info.Defs[id] == v {
					found = true
				}
			}
		}
		return true
	})
	return found
}

// callOpaqueFn: a call through a function value without a contract: pure uninterpreted application.
func (x *Exec) callOpaqueFn(s *State, call *ast.CallExpr, fv *Term, label string) []*Term {
	sig := x.info.TypeOf(call.Fun).Underlying().(*types.Signature)
	args := x.evalArgs(s, call, sig)
	var sorts []string
	for _, a := range args {
		sorts = append(sorts, mangle(a.Sort))
	}
	var outs []*Term
	for i := 0; i < sig.Results().Len(); i++ {
		rs := x.u.sortOf(sig.Results().At(i).Type())
		name := fmt.Sprintf("apply%d_%s_%s", i, strings.Join(sorts, "_"), mangle(rs))
		outs = append(outs, withType(mk(name, rs, append([]*Term{fv}, args...)...), sig.Results().At(i).Type()))
	}
	x.assumptions["calls through function value '"+label+"' in "+x.fi.Name+" are modelled as pure (deterministic, no side effects)"] = true
	return outs
}

func (x *Exec) callByContract(s *State, c *Contract, name string, sig *types.Signature, recv *Term, args []*Term, closure *FuncInfo, call ast.Node) []*Term {
	var pnames []string
	var pvals []*Term
	var ptypes []types.Type
	if sig.Recv() != nil && recv != nil {
		rn := sig.Recv().Name()
		if rn == "" || rn == "_" {
			rn = "recv"
		}
		pnames = append(pnames, rn)
		pvals = append(pvals, recv)
		ptypes = append(ptypes, sig.Recv().Type())
	}
	for i := 0; i < sig.Params().Len(); i++ {
		pn := sig.Params().At(i).Name()
		if pn == "" || pn == "_" {
			pn = fmt.Sprintf("arg%d", i)
		}
		pnames = append(pnames, pn)
		pvals = append(pvals, args[i])
		ptypes = append(ptypes, sig.Params().At(i).Type())
	}
	if len(c.Params) > 0 {
		if len(c.Params) != len(pnames) {
			x.fail(call, "contract %s names %d parameters, signature has %d (receiver first)", name, len(c.Params), len(pnames))
		}
		pnames = c.Params
	}
	// captured variables of a closure are implicit by-reference parameters
	var capVars []*types.Var
	if closure != nil {
		for _, cv := range closure.Captured {
			if _, isFn := cv.Type().Underlying().(*types.Signature); isFn {
				continue
			}
			capVars = append(capVars, cv)
			pnames = append(pnames, cv.Name())
			val := x.evalVarValue(s, cv)
			pvals = append(pvals, val)
			ptypes = append(ptypes, cv.Type())
		}
	}
	var rnames, rsorts []string
	var rtypes []types.Type
	for i := 0; i < sig.Results().Len(); i++ {
		rv := sig.Results().At(i)
		rn := rv.Name()
		if i < len(c.Results) {
			rn = c.Results[i]
		} else if rn == "" || rn == "_" {
			if sig.Results().Len() == 1 {
				rn = "result"
			} else {
				rn = fmt.Sprintf("result%d", i)
			}
		}
		rnames = append(rnames, rn)
		rsorts = append(rsorts, x.u.sortOf(rv.Type()))
		rtypes = append(rtypes, rv.Type())
	}
	outs := x.callByContractFull(s, c, name, pnames, pvals, ptypes, rnames, rsorts, rtypes, call)
	return outs
}

func (x *Exec) evalVarValue(s *State, v *types.Var) *Term {
	t, ok := s.vars[v]
	if !ok {
		x.fail(nil, "captured variable %s has no value", v.Name())
	}
	if x.boxed[v] {
		pv, srt := x.u.ptrVar(v.Type())
		return withType(Select(x.getSt(s, pv, arraySort(SRef, srt)), t), v.Type())
	}
	return withType(t, v.Type())
}

func (x *Exec) callByContractNamed(s *State, c *Contract, name string, pnames []string, pvals []*Term, ptypes []types.Type, rnames, rsorts []string, call ast.Node) []*Term {
	rtypes := make([]types.Type, len(rnames))
	return x.callByContractFull(s, c, name, pnames, pvals, ptypes, rnames, rsorts, rtypes, call)
}

func (x *Exec) callByContractFull(s *State, c *Contract, name string, pnames []string, pvals []*Term, ptypes []types.Type,
	rnames, rsorts []string, rtypes []types.Type, call ast.Node) []*Term {
	c.Used = true
	x.calleesUsed[name] = true
	pre := s.clone()
	pkg := x.pkgOfContract(name)
	envPre := &TrEnv{x: x, st: pre, bound: map[string]*Term{}, lets: map[string]*Term{}, pkg: pkg, macros: contractMacros(c)}
	envPre.old = envPre
	for i, n := range pnames {
		envPre.bound[n] = withType(pvals[i], ptypes[i])
	}
	if x.fnValueOfCall != nil {
		envPre.bound["$fn"] = x.fnValueOfCall
	}
	// preconditions
	x.nPre[name]++
	for i, r := range c.Requires {
		label := r.Label
		if label == "" {
			label = fmt.Sprint(i + 1)
		}
		goal := x.trBool(r.Expr, envPre)
		x.obligeSplit(s, "pre("+shortName(name)+")", fmt.Sprintf("%d.%s", x.nPre[name], label), goal, r.Text, r.Pos)
		s.assume(goal)
	}
	// havoc
	targets := x.resolveAssigns(c.Assigns, envPre)
	allocBefore := x.getSt(s, "alloc", arraySort(SRef, SBool))
	for _, t := range targets {
		// a callee that writes a field of an object allocated at our entry writes it on our behalf (write-time frame)
		if strings.HasPrefix(t.Var, "H.") && len(t.Idx) >= 1 && call != nil {
			x.checkWriteFrame(s, t.Var, t.Idx[0], call)
		}
	}
	x.applyHavoc(s, targets)
	if allocAfter := x.getSt(s, "alloc", arraySort(SRef, SBool)); allocAfter != allocBefore {
		// allocation is monotone
		r := V("r?", SRef)
		s.assume(Forall([]*Term{r}, Implies(Select(allocBefore, r), Select(allocAfter, r))))
	}
	if !c.HasAssigns && !c.Pure {
		x.fail(call, "contract %s has no assigns clause (write 'assigns nothing' or 'pure')", name)
	}
	// results
	outs := make([]*Term, len(rnames))
	envPost := &TrEnv{x: x, st: s, bound: map[string]*Term{}, lets: envPre.lets, pkg: pkg, old: envPre, macros: envPre.macros}
	for i, n := range pnames {
		envPost.bound[n] = withType(pvals[i], ptypes[i])
	}
	if x.fnValueOfCall != nil {
		envPost.bound["$fn"] = x.fnValueOfCall
	}
	for i, n := range rnames {
		r := x.fresh("r."+shortName(name)+"."+n, rsorts[i])
		if rtypes[i] != nil {
			r.GoType = rtypes[i]
			x.assumeWellTyped(s, r, rtypes[i])
			if isByteSlice(rtypes[i]) {
				x.setAlias(r, x.fresh("al.r."+n, SBool))
			}
		}
		outs[i] = r
		envPost.bound[n] = r
	}
	if c.Pure && len(outs) == 1 {
		var as []*Term
		as = append(as, pvals...)
		s.assume(Eq(outs[0], mk(pureName(name), outs[0].Sort, as...)))
	}
	for _, e := range c.Ensures {
		t := x.trBool(e.Expr, envPost)
		if x.c != nil && e.Label != "" && x.c.Isolate[e.Label] != 0 {
			// the calling contract isolates this labelled postcondition of the callee: only obligations of the same
			// isolation group see it
			x.tagHyps(t, e.Label)
		}
		s.assume(t)
	}
	return outs
}

func shortName(n string) string {
	if i := strings.LastIndex(n, "."); i >= 0 {
		// keep type for methods
		if j := strings.LastIndex(n[:i], "."); j >= 0 && strings.Contains(n[j:i], "(") {
			return n[j+1:]
		}
		return n[i+1:]
	}
	return n
}

func (x *Exec) pkgOfContract(name string) *types.Package {
	i := strings.Index(name, ".")
	if i < 0 {
		return nil
	}
	if p, ok := x.u.Pkgs[name[:i]]; ok {
		return p.Types
	}
	return nil
}

// funcCandidates: the named functions assigned to local variable v anywhere in the function (nil if any other
// kind of value is assigned).
func (x *Exec) funcCandidates(v *types.Var) []*types.Func {
	var out []*types.Func
	ok := true
	seen := map[*types.Func]bool{}
	consider := func(lhs ast.Expr, rhs ast.Expr) {
		id, isID := lhs.(*ast.Ident)
		if !isID {
			return
		}
		if x.info.Defs[id] != v && x.info.Uses[id] != v {
			return
		}
		rid, isRID := ast.Unparen(rhs).(*ast.Ident)
		if !isRID {
			ok = false
			return
		}
		f, isF := x.info.Uses[rid].(*types.Func)
		if !isF {
			ok = false
			return
		}
		if !seen[f] {
			seen[f] = true
			out = append(out, f)
		}
	}
	ast.Inspect(x.fi.Body, func(n ast.Node) bool {
		if as, isAs := n.(*ast.AssignStmt); isAs && len(as.Lhs) == len(as.Rhs) {
			for i := range as.Lhs {
				consider(as.Lhs[i], as.Rhs[i])
			}
		}
		return true
	})
	if !ok {
		return nil
	}
	return out
}

// pureName: SMT function symbol for the pure-function view of a Go function.
func pureName(name string) string {
	return "pure." + strings.Map(func(r rune) rune {
		switch r {
		case '(', ')', '*', ' ', '[', ']', '$':
			return '_'
		}
		return r
	}, name)
}

// ---------------------------------------------------------------------------
// in-place execution of contract-less repository functions

type inlineRet struct {
	st   *State
	vals []*Term
}

type inlineFrame struct {
	fi          *FuncInfo
	resultVars  []*types.Var
	resultSorts []string
	rets        []inlineRet
}

func inlinable(fi *FuncInfo) bool {
	ok := true
	ast.Inspect(fi.Body, func(n ast.Node) bool {
		switch n.(type) {
		case *ast.ForStmt, *ast.RangeStmt, *ast.DeferStmt, *ast.FuncLit, *ast.GoStmt, *ast.LabeledStmt:
			ok = false
		}
		return ok
	})
	return ok
}

func (x *Exec) inlineFunc(s *State, call *ast.CallExpr, fi *FuncInfo, sig *types.Signature, recv *Term) ([]*Term, bool) {
	if len(x.inlineStack) >= 3 || !inlinable(fi) || sig.Variadic() {
		return nil, false
	}
	for _, fr := range x.inlineStack {
		if fr.fi == fi {
			return nil, false
		}
	}
	args := x.evalArgs(s, call, sig)
	fr := &inlineFrame{fi: fi}
	csig := fi.Sig
	if fi.Recv != nil {
		if recv == nil {
			return nil, false
		}
		s.vars[fi.Recv] = recv
	}
	if csig.Params().Len() != len(args) {
		return nil, false
	}
	for i := 0; i < csig.Params().Len(); i++ {
		s.vars[csig.Params().At(i)] = args[i]
	}
	for i := 0; i < csig.Results().Len(); i++ {
		rv := csig.Results().At(i)
		fr.resultVars = append(fr.resultVars, rv)
		fr.resultSorts = append(fr.resultSorts, x.u.sortOf(rv.Type()))
		if rv.Name() != "" && rv.Name() != "_" {
			s.vars[rv] = x.u.zero(x.u.sortOf(rv.Type()))
		}
	}
	savedInfo := x.info
	x.info = fi.Pkg.TypesInfo
	x.inlineStack = append(x.inlineStack, fr)
	o := x.execBlock(s, fi.Body.List, x.entryState)
	x.inlineStack = x.inlineStack[:len(x.inlineStack)-1]
	x.info = savedInfo
	if len(o.brk) > 0 || len(o.cont) > 0 {
		x.fail(call, "break/continue out of an inlined function")
	}
	for _, st := range o.normal {
		if len(fr.resultVars) > 0 {
			x.fail(call, "inlined function %s falls off its end", fi.Name)
		}
		fr.rets = append(fr.rets, inlineRet{st: st})
	}
	if len(fr.rets) == 0 {
		// every path of the callee ended otherwise (cannot happen without panics): treat as unreachable
		s.assume(False)
		var outs []*Term
		for i := range fr.resultVars {
			outs = append(outs, x.u.zero(fr.resultSorts[i]))
		}
		return outs, true
	}
	// join the return paths: the results travel in synthetic variables so that merge treats them like locals
	var tmp []*types.Var
	for i, rv := range fr.resultVars {
		tmp = append(tmp, types.NewVar(token.NoPos, fi.Pkg.Types, fmt.Sprintf("$inl%d_%d", len(x.inlineStack), i), rv.Type()))
	}
	var sts []*State
	for _, r := range fr.rets {
		for i, v := range tmp {
			r.st.vars[v] = r.vals[i]
		}
		sts = append(sts, r.st)
	}
	var m *State
	if len(sts) == 1 {
		m = sts[0]
	} else {
		saved := x.c.Options["paths"]
		if saved {
			delete(x.c.Options, "paths")
		}
		ms := x.merge(sts)
		if saved {
			x.c.Options["paths"] = true
		}
		if len(ms) != 1 {
			x.fail(call, "return paths of inlined function %s could not be joined", fi.Name)
		}
		m = ms[0]
	}
	var outs []*Term
	for i, v := range tmp {
		outs = append(outs, withType(m.vars[v], fr.resultVars[i].Type()))
		delete(m.vars, v)
	}
	s.vars, s.st, s.pc, s.pseudo = m.vars, m.st, m.pc, m.pseudo
	x.assumptions["function "+fi.Name+" has no contract: its body is executed in place at its call sites"] = true
	return outs, true
}
