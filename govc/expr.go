package main

import (
	"fmt"
	"go/ast"
	"go/constant"
	"go/token"
	"go/types"
	"strings"
)

func (x *Exec) eval(s *State, e ast.Expr) *Term {
	vals := x.evalMulti(s, e)
	if len(vals) == 0 {
		x.fail(e, "expression has no value")
	}
	return vals[0]
}

func (x *Exec) constTerm(e ast.Expr, tv types.TypeAndValue) *Term {
	switch tv.Value.Kind() {
	case constant.Bool:
		if constant.BoolVal(tv.Value) {
			return True
		}
		return False
	case constant.String:
		return withType(StrLit(constant.StringVal(tv.Value)), tv.Type)
	case constant.Int:
		if n, ok := constant.Int64Val(tv.Value); ok {
			if n > 1<<40 || n < -(1<<40) {
				// very large constants (math.MaxInt): keep symbolic, with the fact that they are huge
				t := &Term{Op: tv.Value.ExactString(), Sort: SInt}
				if n < 0 {
					t = mk("-", SInt, &Term{Op: tv.Value.ExactString()[1:], Sort: SInt})
				}
				return t
			}
			return withType(Num(int(n)), tv.Type)
		}
		return &Term{Op: tv.Value.ExactString(), Sort: SInt}
	}
	x.fail(e, "unsupported constant kind %v", tv.Value.Kind())
	return nil
}

func (x *Exec) evalMulti(s *State, e ast.Expr) []*Term {
	if tv, ok := x.info.Types[e]; ok && tv.Value != nil {
		return []*Term{x.constTerm(e, tv)}
	}
	switch e := e.(type) {
	case *ast.ParenExpr:
		return x.evalMulti(s, e.X)
	case *ast.Ident:
		return []*Term{x.evalIdent(s, e)}
	case *ast.BasicLit:
		x.fail(e, "non-constant basic literal")
	case *ast.FuncLit:
		fi := x.u.LitOf[e]
		t := x.fresh("closure."+fi.Name, SFn)
		return []*Term{t}
	case *ast.CompositeLit:
		return []*Term{x.evalComposite(s, e, false)}
	case *ast.SelectorExpr:
		return []*Term{x.evalSelector(s, e)}
	case *ast.IndexExpr:
		return x.evalIndex(s, e, false)
	case *ast.SliceExpr:
		return []*Term{x.evalSlice(s, e)}
	case *ast.StarExpr:
		p := x.eval(s, e.X)
		x.obligeNoPanic(s, Neq(p, V("null", SRef)), "nil dereference", e)
		elem := x.info.TypeOf(e.X).Underlying().(*types.Pointer).Elem()
		if x.isHeapStructType(elem) {
			return []*Term{withType(p, elem)}
		}
		pv, srt := x.u.ptrVar(elem)
		return []*Term{withType(Select(x.getSt(s, pv, arraySort(SRef, srt)), p), elem)}
	case *ast.UnaryExpr:
		return []*Term{x.evalUnary(s, e)}
	case *ast.BinaryExpr:
		return []*Term{x.evalBinary(s, e)}
	case *ast.CallExpr:
		return x.evalCall(s, e)
	case *ast.TypeAssertExpr:
		v := x.eval(s, e.X)
		t := x.info.TypeOf(e.Type)
		if v.Sort != SAny {
			// assertion on a non-empty interface (ast.Decl -> *ast.FuncDecl): opaque
			ok := x.fresh("typeassert.ok", SBool)
			return []*Term{withType(v, t), ok}
		}
		okT := Eq(mk("dyntype", SType, v), x.typeConst(t))
		if _, isTP := types.Unalias(t).(*types.TypeParam); isTP {
			okT = mk("hasType_"+mangle(t.String()), SBool, v)
		}
		return []*Term{x.unbox(v, t), okT}
	}
	x.fail(e, "unsupported expression %T", e)
	return nil
}

func (x *Exec) evalIdent(s *State, id *ast.Ident) *Term {
	obj := x.info.Uses[id]
	if obj == nil {
		obj = x.info.Defs[id]
	}
	switch o := obj.(type) {
	case *types.Nil:
		t := x.info.TypeOf(id)
		return withType(x.u.zero(x.u.sortOf(t)), t)
	case *types.Var:
		if o.Pkg() != nil && o.Parent() == o.Pkg().Scope() {
			return x.globalValue(s, o)
		}
		v, ok := s.vars[o]
		if !ok {
			x.fail(id, "variable %s has no value (captured variable not bound?)", id.Name)
		}
		if x.boxed[o] {
			pv, srt := x.u.ptrVar(o.Type())
			return withType(Select(x.getSt(s, pv, arraySort(SRef, srt)), v), o.Type())
		}
		if bi, ok := x.borrow[v.String()]; ok && len(x.borrow) > 0 {
			// reading a scanner token: no Scan on that scanner may have happened since Bytes() returned it
			x.nBorrow++
			pos := x.u.Fset.Position(id.Pos())
			x.oblige(s, "borrow", fmt.Sprintf("%s.%d", id.Name, x.nBorrow), Eq(Select(x.getSt(s, "scgen", arraySort(SRef, SInt)), bi.scanner), bi.gen),
				"the bytes returned by Scanner.Bytes are valid only until the next Scan: "+id.Name+" is read after a later Scan", fmt.Sprintf("%s:%d", x.fi.File, pos.Line))
		}
		return withType(v, o.Type())
	case *types.Func:
		return V("fn."+x.u.funcName(o), SFn)
	case *types.Const:
		tv := x.info.Types[id]
		return x.constTerm(id, tv)
	}
	x.fail(id, "unsupported identifier %s (%T)", id.Name, obj)
	return nil
}

func (x *Exec) globalValue(s *State, v *types.Var) *Term {
	name := x.u.globalVar(v)
	if x.isHeapStructType(v.Type()) {
		r := V(name, SRef)
		r.GoType = v.Type()
		return r
	}
	srt := x.u.sortOf(v.Type())
	if x.u.isConstGlobal(v) {
		if t := x.u.constInit(v); t != nil {
			return withType(t, v.Type())
		}
		if t := x.inlineInit(s, v); t != nil {
			return withType(t, v.Type())
		}
		return withType(V(name, srt), v.Type())
	}
	return withType(x.getSt(s, name, srt), v.Type())
}

// evalFieldBase evaluates the object holding the selected field and returns (ref, named struct type) for heap
// structs, or (nil, nil) for value structs.
func (x *Exec) evalFieldBase(s *State, e *ast.SelectorExpr, sel *types.Selection) (*Term, *types.Named) {
	base := x.eval(s, e.X)
	t := x.info.TypeOf(e.X)
	path := sel.Index()
	// walk embedded fields
	for _, idx := range path[:len(path)-1] {
		n := namedOf(t)
		st := n.Underlying().(*types.Struct)
		f := st.Field(idx)
		fv := x.u.fieldVar(n, f.Name())
		base = Select(x.getSt(s, fv, arraySort(SRef, x.u.sortOf(f.Type()))), base)
		t = f.Type()
	}
	n := namedOf(t)
	if n == nil {
		return nil, nil
	}
	if _, isPtr := types.Unalias(t).Underlying().(*types.Pointer); !isPtr && x.u.isValueStruct(n) {
		return nil, nil
	}
	if base.Sort != SRef {
		return nil, nil
	}
	return base, n
}

func (x *Exec) evalSelector(s *State, e *ast.SelectorExpr) *Term {
	sel := x.info.Selections[e]
	if sel == nil {
		// qualified identifier
		return x.evalIdent(s, e.Sel)
	}
	switch sel.Kind() {
	case types.FieldVal:
		base, named := x.evalFieldBase(s, e, sel)
		ft := sel.Obj().Type()
		if named == nil {
			v := x.eval(s, e.X)
			si, ok := x.u.structs[v.Sort]
			if !ok {
				x.fail(e, "field selection on sort %s", v.Sort)
			}
			for i, f := range si.Fields {
				if f == e.Sel.Name {
					return withType(mk(v.Sort+"_"+f, si.FSorts[i], v), ft)
				}
			}
			x.fail(e, "no field %s", e.Sel.Name)
		}
		if _, isPtr := x.info.TypeOf(e.X).Underlying().(*types.Pointer); isPtr {
			x.obligeNoPanic(s, Neq(base, V("null", SRef)), "nil dereference", e)
		}
		fv := x.u.fieldVar(named, e.Sel.Name)
		fs := x.u.sortOf(ft)
		x.checkGuard(s, named, e.Sel.Name, base, false, e)
		val := withType(Select(x.getSt(s, fv, arraySort(SRef, fs)), base), ft)
		if isSliceSort(fs) {
			s.assume(Le(Num(0), sliceLen(val)))
		}
		return val
	case types.MethodVal:
		x.fail(e, "method value")
	}
	x.fail(e, "unsupported selector")
	return nil
}

func (x *Exec) evalIndex(s *State, e *ast.IndexExpr, commaOk bool) []*Term {
	ct := x.info.TypeOf(e.X)
	switch ut := ct.Underlying().(type) {
	case *types.Map:
		m := x.eval(s, e.X)
		k := x.eval(s, e.Index)
		v, ok := x.mapLoad(s, ut, m, k)
		return []*Term{v, ok}
	case *types.Slice, *types.Array:
		sl := x.eval(s, e.X)
		i := x.eval(s, e.Index)
		if sl.Sort == SStr {
			x.obligeNoPanic(s, And(Le(Num(0), i), Lt(i, mk("s.len", SInt, sl))), "index out of range", e)
			return []*Term{mk("s.byte", SInt, sl, i)}
		}
		x.obligeNoPanic(s, And(Le(Num(0), i), Lt(i, sliceLen(sl))), "index out of range", e)
		var et types.Type
		if st, ok := ut.(*types.Slice); ok {
			et = st.Elem()
		}
		return []*Term{withType(Select(x.u.sliceArr(sl), i), et)}
	case *types.Basic:
		if ut.Info()&types.IsString != 0 {
			str := x.eval(s, e.X)
			i := x.eval(s, e.Index)
			x.obligeNoPanic(s, And(Le(Num(0), i), Lt(i, mk("s.len", SInt, str))), "index out of range", e)
			return []*Term{mk("s.byte", SInt, str, i)}
		}
	}
	x.fail(e, "unsupported index expression on %s", ct)
	return nil
}

func (x *Exec) evalSlice(s *State, e *ast.SliceExpr) *Term {
	v := x.eval(s, e.X)
	var lo, hi *Term
	if e.Low != nil {
		lo = x.eval(s, e.Low)
	} else {
		lo = Num(0)
	}
	if v.Sort == SStr {
		n := mk("s.len", SInt, v)
		if e.High != nil {
			hi = x.eval(s, e.High)
		} else {
			hi = n
		}
		x.obligeNoPanic(s, And(Le(Num(0), lo), Le(lo, hi), Le(hi, n)), "slice bounds out of range", e)
		return withType(mk("s.substr", SStr, v, lo, Sub(hi, lo)), x.info.TypeOf(e))
	}
	if !isSliceSort(v.Sort) {
		x.fail(e, "slice expression on sort %s", v.Sort)
	}
	n := sliceLen(v)
	if e.High != nil {
		hi = x.eval(s, e.High)
	} else {
		hi = n
	}
	// NOTE: Go allows hi up to cap(v); we require hi <= len(v) (stronger; capacity is not modelled).
	x.obligeNoPanic(s, And(Le(Num(0), lo), Le(lo, hi), Le(hi, n)), "slice bounds out of range (len is used for cap)", e)
	if isNumZero(lo) {
		return withType(x.u.mkSlice(v.Sort, hi, x.u.sliceArr(v)), x.info.TypeOf(e))
	}
	el := x.u.sliceElem(v.Sort)
	arr := x.fresh("sub", arraySort(SInt, el))
	k := V("k?", SInt)
	s.assume(Forall([]*Term{k}, Implies(And(Le(Num(0), k), Lt(k, Sub(hi, lo))), Eq(Select(arr, k), Select(x.u.sliceArr(v), Add(lo, k))))))
	// the same fact indexed by the source position (gives E-matching a trigger on the source array)
	u := V("u?", SInt)
	q := Forall([]*Term{u}, Implies(And(Le(lo, u), Lt(u, hi)), Eq(Select(x.u.sliceArr(v), u), Select(arr, Sub(u, lo)))))
	q.Pats = [][]*Term{{Select(x.u.sliceArr(v), u)}}
	s.assume(q)
	return withType(x.u.mkSlice(v.Sort, Sub(hi, lo), arr), x.info.TypeOf(e))
}

func isNumZero(t *Term) bool { return t.Op == "0" && len(t.Args) == 0 }

func (x *Exec) evalUnary(s *State, e *ast.UnaryExpr) *Term {
	switch e.Op {
	case token.NOT:
		return Not(x.eval(s, e.X))
	case token.SUB:
		return mk("-", SInt, x.eval(s, e.X))
	case token.ADD:
		return x.eval(s, e.X)
	case token.AND:
		switch in := e.X.(type) {
		case *ast.CompositeLit:
			return x.evalComposite(s, in, true)
		case *ast.Ident:
			obj := x.info.Uses[in]
			v, ok := obj.(*types.Var)
			if !ok {
				x.fail(e, "address of non-variable")
			}
			if x.isHeapStructType(v.Type()) {
				return withType(x.evalIdent(s, in), x.info.TypeOf(e))
			}
			if v.Pkg() != nil && v.Parent() == v.Pkg().Scope() {
				x.fail(e, "address of package-level scalar")
			}
			if x.boxed[v] {
				return withType(s.vars[v], x.info.TypeOf(e))
			}
			x.fail(e, "address of unboxed variable")
		case *ast.SelectorExpr:
			// address of a field: a unique reference distinct from every other one (only compared, never dereferenced)
			ft := x.info.TypeOf(in)
			if x.isHeapStructType(ft) {
				return withType(x.evalSelector(s, in), x.info.TypeOf(e))
			}
			r := x.allocRef(s, "fieldaddr")
			return withType(r, x.info.TypeOf(e))
		}
		x.fail(e, "unsupported address-of")
	}
	x.fail(e, "unsupported unary operator %s", e.Op)
	return nil
}

func (x *Exec) evalBinary(s *State, e *ast.BinaryExpr) *Term {
	switch e.Op {
	case token.LAND, token.LOR:
		l := x.eval(s, e.X)
		g := l
		if e.Op == token.LOR {
			g = Not(l)
		}
		// evaluate the right operand under the guard
		pcLen := len(s.pc)
		stBefore := s.snapshotSt()
		x.guard = append(x.guard, g)
		r := x.eval(s, e.Y)
		x.guard = x.guard[:len(x.guard)-1]
		if !s.sameSt(stBefore) {
			x.fail(e, "right operand of %s has side effects", e.Op)
		}
		// assumptions added while evaluating the right operand hold only under the guard
		if len(s.pc) > pcLen {
			extra := And(s.pc[pcLen:]...)
			s.pc = s.pc[:pcLen]
			s.assume(Implies(g, extra))
		}
		if e.Op == token.LAND {
			return And(l, r)
		}
		return Or(l, r)
	}
	// nil comparisons: evaluate nil with the sort of the other side
	l, r := x.evalOperandPair(s, e.X, e.Y)
	switch e.Op {
	case token.EQL:
		return Eq(l, r)
	case token.NEQ:
		return Neq(l, r)
	case token.LSS:
		if l.Sort == SStr {
			return mk("s.lt", SBool, l, r)
		}
		return Lt(l, r)
	case token.LEQ:
		if l.Sort == SStr {
			return Or(mk("s.lt", SBool, l, r), Eq(l, r))
		}
		return Le(l, r)
	case token.GTR:
		if l.Sort == SStr {
			return mk("s.lt", SBool, r, l)
		}
		return Lt(r, l)
	case token.GEQ:
		if l.Sort == SStr {
			return Or(mk("s.lt", SBool, r, l), Eq(l, r))
		}
		return Le(r, l)
	case token.ADD:
		if l.Sort == SStr {
			return withType(catTerms(l, r), x.info.TypeOf(e))
		}
		return Add(l, r)
	case token.SUB:
		return Sub(l, r)
	case token.MUL:
		return mk("*", SInt, l, r)
	case token.QUO:
		x.obligeNoPanic(s, Neq(r, Num(0)), "division by zero", e)
		return mk("go_div", SInt, l, r)
	case token.REM:
		x.obligeNoPanic(s, Neq(r, Num(0)), "division by zero", e)
		return mk("go_mod", SInt, l, r)
	}
	x.fail(e, "unsupported binary operator %s", e.Op)
	return nil
}

func (x *Exec) evalOperandPair(s *State, a, b ast.Expr) (*Term, *Term) {
	isNil := func(e ast.Expr) bool {
		id, ok := ast.Unparen(e).(*ast.Ident)
		if !ok {
			return false
		}
		_, isN := x.info.Uses[id].(*types.Nil)
		return isN
	}
	switch {
	case isNil(a) && !isNil(b):
		r := x.eval(s, b)
		if isSliceSort(r.Sort) {
			return mk("isnil_"+r.Sort, SBool, r), True
		}
		return x.nilOf(r), r
	case isNil(b) && !isNil(a):
		l := x.eval(s, a)
		if isSliceSort(l.Sort) {
			return mk("isnil_"+l.Sort, SBool, l), True
		}
		return l, x.nilOf(l)
	}
	l := x.eval(s, a)
	r := x.eval(s, b)
	if l.Sort != r.Sort {
		// interface vs concrete comparison
		if l.Sort == SAny {
			r = x.box(r, nil)
		} else if r.Sort == SAny {
			l = x.box(l, nil)
		}
	}
	return l, r
}

func (x *Exec) nilOf(t *Term) *Term {
	if isSliceSort(t.Sort) {
		// a nil slice has length 0; comparison with nil is modelled as len == 0 && isnil flag unknown.
		// We model nil-ness of slices by length 0 (no function here distinguishes empty from nil).
		return x.u.zero(t.Sort)
	}
	return x.u.zero(t.Sort)
}

func (s *State) snapshotSt() map[string]*Term {
	m := make(map[string]*Term, len(s.st))
	for k, v := range s.st {
		m[k] = v
	}
	return m
}

func (s *State) sameSt(m map[string]*Term) bool {
	if len(m) != len(s.st) {
		// new keys may have been read (not written): compare values of keys in m and new keys must equal init
		for k, v := range s.st {
			if o, ok := m[k]; ok && o != v {
				return false
			} else if !ok && k != "alloc" {
				return false
			}
		}
		return true
	}
	for k, v := range s.st {
		if m[k] != v {
			return false
		}
	}
	return true
}

func (x *Exec) evalComposite(s *State, e *ast.CompositeLit, addr bool) *Term {
	t := x.info.TypeOf(e)
	switch ut := t.Underlying().(type) {
	case *types.Struct:
		var names []string
		var vals []*Term
		for i, el := range e.Elts {
			if kv, ok := el.(*ast.KeyValueExpr); ok {
				names = append(names, kv.Key.(*ast.Ident).Name)
				vals = append(vals, x.evalForType(s, kv.Value, fieldType(ut, kv.Key.(*ast.Ident).Name)))
			} else {
				names = append(names, ut.Field(i).Name())
				vals = append(vals, x.evalForType(s, el, ut.Field(i).Type()))
			}
		}
		if ut.NumFields() == 0 {
			return True // struct{}{}
		}
		if x.isHeapStructType(t) {
			r := x.newHeapStruct(s, t, names, vals)
			if addr {
				return withType(r, types.NewPointer(t))
			}
			return withType(r, t)
		}
		n := namedOf(t)
		srt := x.u.ensureStruct(n, ut)
		si := x.u.structs[srt]
		args := make([]*Term, len(si.Fields))
		for i, f := range si.Fields {
			args[i] = x.u.zero(si.FSorts[i])
			for j, nm := range names {
				if nm == f {
					args[i] = vals[j]
				}
			}
		}
		if addr {
			x.fail(e, "address of value-struct literal")
		}
		return withType(mk("mk_"+srt, srt, args...), t)
	case *types.Slice:
		srt := x.u.sortOf(t)
		if srt == SStr {
			if len(e.Elts) == 0 {
				return withType(StrLit(""), t)
			}
			x.fail(e, "byte slice literal with elements")
		}
		el := x.u.sliceElem(srt)
		arr := &Term{Op: "const-array", Sort: arraySort(SInt, el), Args: []*Term{x.u.zero(el)}}
		if len(e.Elts) == 0 {
			// an empty literal is a non-nil slice: keep it distinguishable from the zero value
			arr = x.fresh("emptylit", arraySort(SInt, el))
			r := x.u.mkSlice(srt, Num(0), arr)
			s.assume(Not(mk("isnil_"+srt, SBool, r)))
			if x.c != nil && x.c.Options["slice-elems"] {
				s.assume(Eq(mk("elems_"+mangle(srt), arraySort(el, SBool), r), &Term{Op: "const-array", Sort: arraySort(el, SBool), Args: []*Term{False}}))
			}
			return withType(r, t)
		}
		for i, elt := range e.Elts {
			if _, ok := elt.(*ast.KeyValueExpr); ok {
				x.fail(e, "keyed slice literal")
			}
			var v *Term
			if cl, ok := elt.(*ast.CompositeLit); ok && cl.Type == nil {
				v = x.evalComposite(s, cl, false)
			} else {
				v = x.evalForType(s, elt, ut.Elem())
			}
			arr = Store(arr, Num(i), v)
		}
		return withType(x.u.mkSlice(srt, Num(len(e.Elts)), arr), t)
	case *types.Map:
		m := x.mapNew(s, ut)
		for _, elt := range e.Elts {
			kv := elt.(*ast.KeyValueExpr)
			x.mapStore(s, ut, m, x.eval(s, kv.Key), x.evalForType(s, kv.Value, ut.Elem()))
		}
		return withType(m, t)
	}
	x.fail(e, "unsupported composite literal of type %s", t)
	return nil
}

func fieldType(st *types.Struct, name string) types.Type {
	for i := 0; i < st.NumFields(); i++ {
		if st.Field(i).Name() == name {
			return st.Field(i).Type()
		}
	}
	return nil
}

// evalForType evaluates e and converts it to the representation of target type t (boxing into interfaces).
func (x *Exec) evalForType(s *State, e ast.Expr, t types.Type) *Term {
	v := x.eval(s, e)
	return x.convertTo(v, x.info.TypeOf(e), t)
}

func (x *Exec) convertTo(v *Term, from, to types.Type) *Term {
	if to == nil {
		return v
	}
	ts := x.u.sortOf(to)
	if ts == v.Sort {
		return v
	}
	if ts == SAny {
		b := x.box(v, from)
		return b
	}
	if ts == SRef && v.Sort == SRef {
		return v
	}
	return v
}

// boxWithType boxes a value into Any and records its dynamic type.
func (x *Exec) boxTyped(s *State, v *Term, from types.Type) *Term {
	if v.Sort == SAny {
		return v
	}
	b := x.box(v, from)
	if from != nil {
		if _, isIface := from.Underlying().(*types.Interface); !isIface {
			s.assume(Eq(mk("dyntype", SType, b), x.typeConst(types.Default(from))))
			s.assume(Eq(x.unbox(b, from), v))
			s.assume(Neq(b, V("any_nil", SAny)))
		}
	}
	return b
}

// ---------------------------------------------------------------------------
// format strings

type fmtPiece struct {
	lit  string
	verb byte // 0 => literal
	arg  int
}

func parseFormat(f string) ([]fmtPiece, int, error) {
	var out []fmtPiece
	var lit strings.Builder
	n := 0
	for i := 0; i < len(f); i++ {
		if f[i] != '%' {
			lit.WriteByte(f[i])
			continue
		}
		if i+1 >= len(f) {
			return nil, 0, fmt.Errorf("trailing %%")
		}
		i++
		if f[i] == '%' {
			lit.WriteByte('%')
			continue
		}
		switch f[i] {
		case 's', 'd', 'v', 'T', 'q':
			if lit.Len() > 0 {
				out = append(out, fmtPiece{lit: lit.String()})
				lit.Reset()
			}
			out = append(out, fmtPiece{verb: f[i], arg: n})
			n++
		default:
			return nil, 0, fmt.Errorf("unsupported verb %%%c", f[i])
		}
	}
	if lit.Len() > 0 {
		out = append(out, fmtPiece{lit: lit.String()})
	}
	return out, n, nil
}

// formatArg renders one argument under a verb as a Str term.
func (x *Exec) formatArg(verb byte, v *Term, ty types.Type) *Term {
	switch verb {
	case 'T':
		if v.Sort == SAny {
			return mk("typeName", SStr, mk("dyntype", SType, v))
		}
		return mk("typeName", SStr, x.typeConst(types.Default(ty)))
	case 'q':
		return mk("quote", SStr, x.formatArg('v', v, ty))
	}
	switch v.Sort {
	case SStr:
		return v
	case SInt:
		return mk("s.from_int", SStr, v)
	case SErr:
		return mk("errstr", SStr, v)
	case SBool:
		return Ite(v, StrLit("true"), StrLit("false"))
	case SAny:
		return mk("anystr", SStr, v)
	}
	return mk("fmt_"+mangle(v.Sort), SStr, v)
}

// flattenCat returns the operands of a (nested) concatenation.
func flattenCat(t *Term) []*Term {
	if t.Op == "s.cat" && len(t.Args) == 2 {
		return append(flattenCat(t.Args[0]), flattenCat(t.Args[1])...)
	}
	return []*Term{t}
}

// catTerms concatenates two strings, normalising to a right-nested chain with merged literals.
func catTerms(a, b *Term) *Term {
	return catAll(append(flattenCat(a), flattenCat(b)...))
}

func catAll(parts []*Term) *Term {
	if len(parts) == 0 {
		return StrLit("")
	}
	// fold adjacent literals
	var out []*Term
	for _, p := range parts {
		if p.Op == "strlit" && len(out) > 0 && out[len(out)-1].Op == "strlit" {
			out[len(out)-1] = StrLit(out[len(out)-1].Lit + p.Lit)
			continue
		}
		if p.Op == "strlit" && p.Lit == "" {
			continue
		}
		out = append(out, p)
	}
	if len(out) == 0 {
		return StrLit("")
	}
	r := out[len(out)-1]
	for i := len(out) - 2; i >= 0; i-- {
		r = mk("s.cat", SStr, out[i], r)
	}
	return r
}

// sprintf lowers fmt.Sprintf-like calls: format expression + argument expressions.
func (x *Exec) sprintf(s *State, format ast.Expr, args []ast.Expr) *Term {
	tv := x.info.Types[format]
	if tv.Value == nil || tv.Value.Kind() != constant.String {
		// non-literal format: opaque substitution
		f := x.eval(s, format)
		vals := make([]*Term, len(args))
		for i, a := range args {
			vals[i] = x.eval(s, a)
		}
		if len(vals) == 1 && vals[0].Sort == SInt {
			return mk("sprintf_d", SStr, f, vals[0])
		}
		x.fail(format, "non-literal format with unsupported arguments")
	}
	pieces, n, err := parseFormat(constant.StringVal(tv.Value))
	if err != nil {
		x.fail(format, "format: %v", err)
	}
	if n != len(args) {
		x.fail(format, "format expects %d arguments, got %d", n, len(args))
	}
	vals := make([]*Term, len(args))
	for i, a := range args {
		vals[i] = x.eval(s, a)
	}
	var parts []*Term
	for _, p := range pieces {
		if p.verb == 0 {
			parts = append(parts, StrLit(p.lit))
		} else {
			parts = append(parts, x.formatArg(p.verb, vals[p.arg], x.info.TypeOf(args[p.arg])))
		}
	}
	return catAll(parts)
}

// inlineInit: a never-assigned package-level variable whose initialiser is an expression over constants and other
// never-assigned package-level variables (no calls) denotes that expression ("environment captured once").
func (x *Exec) inlineInit(s *State, v *types.Var) *Term {
	if x.inlining[v] {
		return nil
	}
	p, ok := x.u.Pkgs[pkgShort(v.Pkg())]
	if !ok {
		return nil
	}
	var init ast.Expr
	for _, file := range p.Syntax {
		for _, d := range file.Decls {
			gd, ok := d.(*ast.GenDecl)
			if !ok || gd.Tok != token.VAR {
				continue
			}
			for _, sp := range gd.Specs {
				vs := sp.(*ast.ValueSpec)
				for i, n := range vs.Names {
					if p.TypesInfo.Defs[n] == v && i < len(vs.Values) && len(vs.Values) == len(vs.Names) {
						init = vs.Values[i]
					}
				}
			}
		}
	}
	if init == nil {
		return nil
	}
	simple := true
	ast.Inspect(init, func(n ast.Node) bool {
		switch n.(type) {
		case *ast.CallExpr, *ast.FuncLit, *ast.CompositeLit, *ast.UnaryExpr:
			if ue, ok := n.(*ast.UnaryExpr); ok && ue.Op != token.AND {
				return true
			}
			simple = false
		}
		return true
	})
	if !simple {
		return nil
	}
	if x.inlining == nil {
		x.inlining = map[*types.Var]bool{}
	}
	x.inlining[v] = true
	defer delete(x.inlining, v)
	savedInfo := x.info
	x.info = p.TypesInfo
	defer func() { x.info = savedInfo }()
	var t *Term
	func() {
		defer func() {
			if r := recover(); r != nil {
				if _, ok := r.(unsupported); ok {
					t = nil
					return
				}
				panic(r)
			}
		}()
		t = x.eval(s, init)
	}()
	return t
}

// checkGuard: a field declared `guard pkg.Type.field by lockField` may be read only while the lock of the same
// object is held (read or write) and written only while it is held exclusively -- unless no test is running
// (quiescent, the state in which Clean runs).
func (x *Exec) checkGuard(s *State, named *types.Named, field string, base *Term, write bool, n ast.Node) {
	lockField, ok := x.u.Specs.Guards[x.u.namedKey(named)+"."+field]
	if !ok {
		return
	}
	lock := Select(x.getSt(s, x.u.fieldVar(named, lockField), arraySort(SRef, SRef)), base)
	h := Select(x.getSt(s, "held", arraySort(SRef, SInt)), lock)
	var cond *Term
	if write {
		cond = Eq(h, Num(2))
	} else {
		cond = Not(Eq(h, Num(0)))
	}
	q := x.getSt(s, "quiescent", SBool)
	x.nGuard++
	pos := x.u.Fset.Position(n.Pos())
	what := "read"
	if write {
		what = "write"
	}
	x.oblige(s, "guard", fmt.Sprintf("%s.%s.%d", field, what, x.nGuard), Or(q, cond), what+" of "+exprStringNode(n)+" requires "+lockField+" held", fmt.Sprintf("%s:%d", x.fi.File, pos.Line))
}
