package main

import (
	"fmt"
	"go/ast"
	"go/token"
	"go/types"
	"sort"
	"strings"
)

type Obligation struct {
	Retried   bool // timed out in the parallel batch and was solved again alone
	Func      string
	Name      string
	Kind      string
	Hyps      []*Term
	Goal      *Term
	Mode      string
	Text      string
	Pos       string
	ExpectSat bool // vacuity / cover: the hypotheses must NOT be unsat
	Props     []string
	Canary    string
	LemmaIndex int // for lemma obligations: only lemmas declared earlier may be used (-1: all)
	LemmasUsed []string // proved lemmas that were available as axioms in this obligation's query
	// counterexample replay (scalar functions only; nil otherwise)
	Replay *ReplaySpec
	// for ensures obligations: position of the clause in the contract and the return it belongs to (later clauses are
	// proved with the earlier ones as hypotheses)
	EnsIdx int
	RetTag string
	// results
	Res *SolveResult
}

type borrowInfo struct {
	scanner *Term
	gen     *Term
}

type unsupported struct{ msg string }

func (x *Exec) fail(n ast.Node, format string, args ...any) {
	pos := ""
	if n != nil {
		pos = x.u.Fset.Position(n.Pos()).String()
	}
	panic(unsupported{fmt.Sprintf("%s: %s", pos, fmt.Sprintf(format, args...))})
}

type State struct {
	label string // set on a state leaving through a labelled break/continue: the label it targets
	vars map[types.Object]*Term
	st   map[string]*Term
	pc   []*Term
	// scratch (loop pseudo-variables visible to invariants)
	pseudo map[string]*Term
}

func (s *State) clone() *State {
	n := &State{vars: make(map[types.Object]*Term, len(s.vars)), st: make(map[string]*Term, len(s.st)), pseudo: map[string]*Term{}}
	for k, v := range s.vars {
		n.vars[k] = v
	}
	for k, v := range s.st {
		n.st[k] = v
	}
	for k, v := range s.pseudo {
		n.pseudo[k] = v
	}
	n.pc = append([]*Term(nil), s.pc...)
	n.label = s.label
	return n
}

func (s *State) assume(t *Term) {
	if t == nil || isTrue(t) {
		return
	}
	if isFalse(t) {
		s.pc = append(s.pc, False)
		return
	}
	if t.Op == "and" {
		for _, a := range t.Args {
			s.assume(a)
		}
		return
	}
	s.pc = append(s.pc, t)
}

type deferred struct {
	call *ast.CallExpr
	flag string // Bool state variable: the defer statement was executed on this path
}

type Exec struct {
	u     *Universe
	fi    *FuncInfo
	c     *Contract
	mode  string
	info  *types.Info
	obls  []*Obligation
	nfresh map[string]int
	initSt map[string]*Term
	entryVars map[types.Object]*Term
	resultVars []*types.Var
	resultNames []string
	resultSorts []string
	resultTypes []types.Type
	boxed map[types.Object]bool
	loopPath []int
	loopCount []int
	defers []deferred
	nReturn int
	nPre map[string]int
	nNoPanic int
	nGuard   int
	entryState *State
	borrow     map[string]borrowInfo // byte slices returned by Scanner.Bytes: scanner and its generation at that time
	nBorrow    int
	nWFrame    int
	coverPCs   map[string][]*Term
	loopCoverPCs map[string][]*Term
	loopCoverPos map[string]string
	coverPos   map[string]string
	curRets    []*Term
	curEnsIdx  int
	curRetTag  string
	replayOff  bool
	deferIdx   map[*ast.DeferStmt]int
	inlineStack []*inlineFrame
	pendingKeyVar *types.Var
	hypLabel      map[*Term]string // hypotheses contributed by isolated invariants (contract clause `isolate`)
	pendingLabel  string // label of the statement about to be executed (loop or switch)
	entryReqs     []*Term // the translated preconditions (replay: judged on concrete inputs)
	pendingIndVar *types.Var
	identAlias  map[string]*types.Var // contract identifier -> local it was matched to (renamed local)
	discardCall *ast.CallExpr // the call of the expression statement being executed (its results are discarded)
	closureVar map[types.Object]*FuncInfo
	aliasHook  func(*State)
	fnValueOfCall *Term
	inlining   map[*types.Var]bool
	alias      map[string]*Term // ownership of []byte values: term (printed) -> Bool "may share memory with the caller's data"
	loopOrd    map[ast.Node]string
	loopStack  [][]int
	stmtsSeen, stmtsLowered, stmtsDropped int
	loweredSet map[token.Pos]bool
	calleesUsed map[string]bool
	assumptions map[string]bool
	guard []*Term // guards active for obligations raised during short-circuit evaluation
	suppress bool // discard obligations (used in loop-footprint discovery passes)
}

func (x *Exec) fresh(base, sortName string) *Term {
	base = strings.Map(func(r rune) rune {
		if r == ' ' || r == '(' || r == ')' || r == '*' || r == '[' || r == ']' || r == ',' || r == '|' || r == '"' || r == '{' || r == '}' {
			return '_'
		}
		return r
	}, base)
	x.nfresh[base]++
	return V(fmt.Sprintf("%s!%d", base, x.nfresh[base]), sortName)
}

// getSt reads a state variable, creating its initial symbol on first use.
func (x *Exec) getSt(s *State, name, sortName string) *Term {
	if t, ok := s.st[name]; ok {
		return t
	}
	return x.initOf(name, sortName)
}

func (x *Exec) initOf(name, sortName string) *Term {
	if t, ok := x.initSt[name]; ok {
		return t
	}
	if strings.HasPrefix(name, "defer$") {
		// "this defer statement has been executed": false at entry
		x.initSt[name] = False
		x.u.stateSorts[name] = SBool
		return False
	}
	if sortName == "" {
		sortName = x.u.stateSorts[name]
		if sortName == "" {
			panic(unsupported{"unknown sort for state variable " + name})
		}
	}
	t := V(name+"!0", sortName)
	x.initSt[name] = t
	x.u.stateSorts[name] = sortName
	return t
}

// termBig reports whether the printed size of t (as a tree) exceeds a small budget.
func termBig(t *Term, budget *int) bool {
	*budget--
	if *budget < 0 {
		return true
	}
	for _, a := range t.Args {
		if termBig(a, budget) {
			return true
		}
	}
	return false
}

// named introduces a fresh constant for a large term so that later terms stay small (SSA naming).
func (x *Exec) named(s *State, base string, t *Term) *Term {
	b := 24
	if !termBig(t, &b) {
		return t
	}
	c := x.fresh("v."+base, t.Sort)
	c.GoType = t.GoType
	s.pc = append(s.pc, Eq(c, t))
	return c
}

func (x *Exec) setSt(s *State, name string, t *Term) {
	t = x.named(s, name, t)
	x.u.stateSorts[name] = t.Sort
	if _, ok := x.initSt[name]; !ok {
		x.initOf(name, t.Sort)
	}
	s.st[name] = t
}

func (x *Exec) oblige(s *State, kind, label string, goal *Term, text, pos string) {
	if x.suppress {
		return
	}
	if isTrue(goal) {
		// still record trivially discharged obligations? keep the count honest: skip.
		return
	}
	for _, h := range s.pc {
		if isFalse(h) {
			return // infeasible path
		}
	}
	name := x.fi.Name + "#" + kind
	if label != "" {
		name += "#" + label
	}
	// uniquify
	base := name
	n := 1
	for x.hasObl(name) {
		n++
		name = fmt.Sprintf("%s~%d", base, n)
	}
	hyps := append([]*Term(nil), s.pc...)
	if x.c != nil && len(x.c.Isolate) > 0 && len(x.hypLabel) > 0 {
		base := label
		if i := strings.IndexAny(base, ".~@"); i >= 0 {
			base = base[:i]
		}
		mine := x.c.Isolate[base]
		kept := hyps[:0]
		for _, h := range hyps {
			if hl, iso := x.hypLabel[h]; !iso || x.c.Isolate[hl] == mine {
				kept = append(kept, h)
			}
		}
		hyps = kept
	}
	hyps = append(hyps, x.guard...)
	ob := &Obligation{Func: x.fi.Name, Name: name, Kind: kind, Hyps: hyps, Goal: goal, Mode: x.mode, Text: text, Pos: pos, LemmaIndex: -1, EnsIdx: x.curEnsIdx, RetTag: x.curRetTag}
	if (kind == "ensures" || kind == "nopanic") && x.entryState != nil && !x.replayOff {
		func() {
			defer func() {
				if r := recover(); r != nil {
					x.replayOff = true
				}
			}()
			var rets []*Term
			if kind == "ensures" {
				rets = x.curRets
			}
			ob.Replay = x.buildReplaySpec(x.entryState, s, rets)
			if ob.Replay == nil {
				x.replayOff = true
			}
		}()
	}
	x.obls = append(x.obls, ob)
}

func (x *Exec) uniq(name string) string {
	base := name
	n := 1
	for x.hasObl(name) {
		n++
		name = fmt.Sprintf("%s~%d", base, n)
	}
	return name
}

func (x *Exec) hasObl(name string) bool {
	for _, o := range x.obls {
		if o.Name == name {
			return true
		}
	}
	return false
}

// ---------------------------------------------------------------------------
// entry point: verify one function against its contract

func verifyFunction(u *Universe, fi *FuncInfo, c *Contract) (obls []*Obligation, x *Exec, err error) {
	x = &Exec{u: u, fi: fi, c: c, mode: c.Mode, info: fi.Pkg.TypesInfo, nfresh: map[string]int{}, initSt: map[string]*Term{},
		entryVars: map[types.Object]*Term{}, boxed: map[types.Object]bool{}, nPre: map[string]int{}, closureVar: map[types.Object]*FuncInfo{},
		calleesUsed: map[string]bool{}, assumptions: map[string]bool{}}
	if x.mode == "" {
		x.mode = "ctl"
	}
	defer func() {
		if r := recover(); r != nil {
			if us, ok := r.(unsupported); ok {
				err = fmt.Errorf("UNSUPPORTED %s", us.msg)
				return
			}
			panic(r)
		}
	}()
	st := &State{vars: map[types.Object]*Term{}, st: map[string]*Term{}, pseudo: map[string]*Term{}}
	x.findBoxed()
	// parameters
	sig := fi.Sig
	bind := func(v *types.Var) {
		if v == nil {
			return
		}
		srt := u.sortOf(v.Type())
		t := x.fresh("p."+v.Name(), srt)
		t.GoType = v.Type()
		x.assumeWellTyped(st, t, v.Type())
		if isByteSlice(v.Type()) {
			x.setAlias(t, x.fresh("al."+v.Name(), SBool))
		}
		if x.boxed[v] {
			cell := x.allocRef(st, "box."+v.Name())
			pv, _ := u.ptrVar(v.Type())
			x.setSt(st, pv, Store(x.getSt(st, pv, arraySort(SRef, srt)), cell, t))
			st.vars[v] = cell
			x.entryVars[v] = t
			return
		}
		st.vars[v] = t
		x.entryVars[v] = t
	}
	if fi.Recv != nil {
		bind(fi.Recv)
	}
	for i := 0; i < sig.Params().Len(); i++ {
		bind(sig.Params().At(i))
	}
	for _, cv := range fi.Captured {
		bind(cv)
	}
	// results
	for i := 0; i < sig.Results().Len(); i++ {
		rv := sig.Results().At(i)
		x.resultVars = append(x.resultVars, rv)
		x.resultSorts = append(x.resultSorts, u.sortOf(rv.Type()))
		x.resultTypes = append(x.resultTypes, rv.Type())
		name := rv.Name()
		if i < len(c.Results) {
			name = c.Results[i]
		} else if name == "" || name == "_" {
			if sig.Results().Len() == 1 {
				name = "result"
			} else {
				name = fmt.Sprintf("result%d", i)
			}
		}
		x.resultNames = append(x.resultNames, name)
		if rv.Name() != "" && rv.Name() != "_" {
			st.vars[rv] = u.zero(u.sortOf(rv.Type()))
			if srt := u.sortOf(rv.Type()); c.Options["slice-elems"] && isSliceSort(srt) && srt != SStr {
				// the zero value of a slice has no elements
				el := u.sliceElem(srt)
				st.assume(Eq(mk("elems_"+mangle(srt), arraySort(el, SBool), st.vars[rv]), &Term{Op: "const-array", Sort: arraySort(el, SBool), Args: []*Term{False}}))
			}
		}
	}
	// package-level struct variables are allocated, non-nil and pairwise distinct objects; package-level
	// pointers point to allocated objects
	{
		alloc := x.getSt(st, "alloc", arraySort(SRef, SBool))
		var structRefs []*Term
		for _, short := range sortedKeys(u.Pkgs) {
			scope := u.Pkgs[short].Types.Scope()
			for _, name := range scope.Names() {
				v, ok := scope.Lookup(name).(*types.Var)
				if !ok {
					continue
				}
				if x.isHeapStructType(v.Type()) {
					r := V(u.globalVar(v), SRef)
					structRefs = append(structRefs, r)
					st.assume(Select(alloc, r))
				} else if u.sortOf(v.Type()) == SRef && u.isConstGlobal(v) {
					r := V(u.globalVar(v), SRef)
					st.assume(Or(Eq(r, V("null", SRef)), Select(alloc, r)))
				}
			}
		}
		if len(structRefs) > 0 {
			st.assume(mk("distinct", SBool, append([]*Term{V("null", SRef)}, structRefs...)...))
		}
	}
	// snapshot entry state for old(): take after param binding
	entry := st.clone()
	x.entryState = entry
	// requires
	env := x.envFor(st, entry, fi.Body.Pos())
	x.entryReqs = nil
	for _, r := range c.Requires {
		rt := x.trBool(r.Expr, env)
		x.entryReqs = append(x.entryReqs, rt)
		st.assume(rt)
	}
	x.assumeGlobalAxioms(st)
	for _, ga := range c.GhostAssigns {
		srt, ok := u.ghostSorts[ga.Var]
		if !ok {
			panic(unsupported{"ghost assignment to undeclared ghost variable " + ga.Var})
		}
		val := x.trExpr(ga.Expr, env)
		if val.Sort != srt {
			panic(unsupported{"ghost assignment sort mismatch for " + ga.Var})
		}
		x.setSt(st, ga.Var, val)
	}
	// vacuity: the precondition must be satisfiable
	x.obls = append(x.obls, &Obligation{Func: fi.Name, Name: fi.Name + "#vacuity#entry", Kind: "vacuity", Hyps: append([]*Term(nil), st.pc...), Goal: False, Mode: x.mode, ExpectSat: true, Text: "precondition satisfiable", Pos: c.Pos, LemmaIndex: -1})
	x.stmtsSeen = countStmts(fi.Body)
	x.computeLoopOrdinals()
	outs := x.execBlock(st, fi.Body.List, entry)
	// falling off the end = return without values
	for _, o := range outs.normal {
		if len(x.resultVars) > 0 && (x.resultVars[0].Name() == "" || x.resultVars[0].Name() == "_") {
			// control cannot fall off the end of a function with results: the end must be unreachable
			x.oblige(o, "dead", "end-of-function", False, "the end of the function body is unreachable", c.Pos)
			continue
		}
		x.doReturn(o, nil, entry, fi.Body.Rbrace)
	}
	if len(outs.brk) > 0 || len(outs.cont) > 0 {
		x.fail(fi.Body, "break/continue outside loop")
	}
	for _, ord := range sortedKeys(x.loopCoverPCs) {
		x.obls = append(x.obls, &Obligation{Func: x.fi.Name, Name: x.uniq(fmt.Sprintf("%s#cover#loop%s", x.fi.Name, ord)), Kind: "cover", Hyps: []*Term{Or(x.loopCoverPCs[ord]...)}, Goal: False, Mode: x.mode, ExpectSat: true,
			Text: "loop body reachable under its invariant (on some path)", Pos: x.loopCoverPos[ord], LemmaIndex: -1})
	}
	for _, tag := range sortedKeys(x.coverPCs) {
		x.obls = append(x.obls, &Obligation{Func: x.fi.Name, Name: x.uniq(fmt.Sprintf("%s#cover#return%s", x.fi.Name, tag)), Kind: "cover", Hyps: []*Term{Or(x.coverPCs[tag]...)}, Goal: False, Mode: x.mode, ExpectSat: true, Text: "return reachable (on some path)", Pos: x.coverPos[tag], LemmaIndex: -1})
	}
	return x.obls, x, nil
}

// returnOrdinal: 1-based source-order ordinal of the return statement at pos (falling off the end = last+1).
func (x *Exec) returnOrdinal(pos token.Pos) int {
	n := 0
	found := 0
	ast.Inspect(x.fi.Body, func(m ast.Node) bool {
		if _, ok := m.(*ast.FuncLit); ok {
			return false
		}
		if r, ok := m.(*ast.ReturnStmt); ok {
			n++
			if r.Pos() == pos {
				found = n
			}
		}
		return true
	})
	if found == 0 {
		return n + 1
	}
	return found
}

func countStmts(n ast.Node) int {
	c := 0
	ast.Inspect(n, func(n ast.Node) bool {
		if _, ok := n.(*ast.FuncLit); ok {
			return false
		}
		if s, ok := n.(ast.Stmt); ok {
			switch s.(type) {
			case *ast.BlockStmt, *ast.CaseClause, *ast.CommClause:
			default:
				c++
			}
		}
		return true
	})
	return c
}

func (x *Exec) findBoxed() {
	ast.Inspect(x.fi.Body, func(n ast.Node) bool {
		if ue, ok := n.(*ast.UnaryExpr); ok && ue.Op == token.AND {
			if id, ok := ue.X.(*ast.Ident); ok {
				if v, ok := x.info.Uses[id].(*types.Var); ok && v.Parent() != x.fi.Pkg.Types.Scope() {
					if !x.isHeapStructType(v.Type()) {
						x.boxed[v] = true
					}
				}
			}
		}
		return true
	})
}

func (x *Exec) isHeapStructType(t types.Type) bool {
	t = types.Unalias(t)
	if n, ok := t.(*types.Named); ok {
		if _, ok := n.Underlying().(*types.Struct); ok {
			return !x.u.isValueStruct(n)
		}
	}
	if st, ok := t.(*types.Struct); ok && st.NumFields() > 0 {
		return true
	}
	return false
}

func (x *Exec) assumeWellTyped(s *State, t *Term, ty types.Type) {
	switch t.Sort {
	case SRef:
		alloc := x.getSt(s, "alloc", arraySort(SRef, SBool))
		s.assume(Or(Eq(t, V("null", SRef)), Select(alloc, t)))
		if x.isHeapStructType(ty) {
			s.assume(Neq(t, V("null", SRef)))
		}
	default:
		if isSliceSort(t.Sort) {
			s.assume(Le(Num(0), sliceLen(t)))
		}
		if t.Sort == SInt {
			if b, ok := types.Unalias(ty).Underlying().(*types.Basic); ok {
				switch b.Kind() {
				case types.Uint8:
					s.assume(And(Le(Num(0), t), Le(t, Num(255))))
				case types.Uint, types.Uint16, types.Uint32, types.Uint64, types.Uintptr:
					s.assume(Le(Num(0), t))
				}
			}
		}
	}
}

func (x *Exec) allocRef(s *State, base string) *Term {
	r := x.fresh(base, SRef)
	alloc := x.getSt(s, "alloc", arraySort(SRef, SBool))
	s.assume(Neq(r, V("null", SRef)))
	s.assume(Not(Select(alloc, r)))
	x.setSt(s, "alloc", Store(alloc, r, True))
	return r
}

// ---------------------------------------------------------------------------
// statements

type outcomes struct {
	normal, brk, cont []*State
}

func (o *outcomes) add(p outcomes) {
	o.normal = append(o.normal, p.normal...)
	o.brk = append(o.brk, p.brk...)
	o.cont = append(o.cont, p.cont...)
}

func (x *Exec) execBlock(s *State, list []ast.Stmt, entry *State) outcomes {
	cur := []*State{s}
	var res outcomes
	for _, stmt := range list {
		var next []*State
		for _, c := range cur {
			o := x.execStmt(c, stmt, entry)
			next = append(next, o.normal...)
			res.brk = append(res.brk, o.brk...)
			res.cont = append(res.cont, o.cont...)
		}
		cur = x.merge(next)
		if len(cur) == 0 {
			break
		}
	}
	res.normal = cur
	return res
}

// merge joins several states that share a common path-condition prefix into one.
func (x *Exec) merge(states []*State) []*State {
	if len(states) <= 1 {
		return states
	}
	if x.c.Options["paths-in-loops"] && len(x.loopPath) > 0 && len(states) <= 10 {
		return states // keep the paths of a loop body separate: smaller, more ground queries
	}
	if x.c.Options["paths"] && len(x.loopPath) == 0 && len(states) <= 32 {
		return states // straight-line code with few branches: one obligation per path instead of ite-terms
	}
	// common prefix of pcs
	p := len(states[0].pc)
	for _, s := range states[1:] {
		n := 0
		for n < p && n < len(s.pc) && s.pc[n] == states[0].pc[n] {
			n++
		}
		p = n
	}
	m := &State{vars: map[types.Object]*Term{}, st: map[string]*Term{}, pseudo: map[string]*Term{}}
	for k, v := range states[0].pseudo {
		m.pseudo[k] = v
	}
	m.pc = append([]*Term(nil), states[0].pc[:p]...)
	guards := make([]*Term, len(states))
	for i, s := range states {
		extra := And(s.pc[p:]...)
		b := 12
		if termBig(extra, &b) {
			g := x.fresh("br", SBool)
			m.pc = append(m.pc, Implies(g, extra))
			guards[i] = g
		} else {
			guards[i] = extra
		}
	}
	m.assume(Or(guards...))
	// variables
	keys := map[types.Object]bool{}
	for _, s := range states {
		for k := range s.vars {
			keys[k] = true
		}
	}
	for k := range keys {
		var first *Term
		same := true
		inAll := true
		for _, s := range states {
			v, ok := s.vars[k]
			if !ok {
				inAll = false
				break
			}
			if first == nil {
				first = v
			} else if first != v {
				same = false
			}
		}
		if !inAll {
			continue // variable local to a branch
		}
		if same {
			m.vars[k] = first
			continue
		}
		nv := x.fresh("m."+k.Name(), first.Sort)
		nv.GoType = first.GoType
		for i, s := range states {
			m.assume(Implies(guards[i], Eq(nv, s.vars[k])))
		}
		if isByteSlice(k.Type()) {
			al := x.fresh("al.m."+k.Name(), SBool)
			for i, s := range states {
				m.assume(Implies(guards[i], Eq(al, x.getAlias(s.vars[k]))))
			}
			x.setAlias(nv, al)
		}
		m.vars[k] = nv
	}
	skeys := map[string]bool{}
	for _, s := range states {
		for k := range s.st {
			skeys[k] = true
		}
	}
	for _, k := range sortedKeys(skeys) {
		var first *Term
		same := true
		vals := make([]*Term, len(states))
		for i, s := range states {
			v, ok := s.st[k]
			if !ok {
				v = x.initOf(k, "")
			}
			vals[i] = v
			if first == nil {
				first = v
			} else if first != v {
				same = false
			}
		}
		if same {
			m.st[k] = first
			continue
		}
		nv := x.fresh("m."+k, first.Sort)
		for i := range states {
			m.assume(Implies(guards[i], Eq(nv, vals[i])))
		}
		m.st[k] = nv
	}
	return []*State{m}
}

func (x *Exec) execStmt(s *State, stmt ast.Stmt, entry *State) outcomes {
	if x.loweredSet == nil {
		x.loweredSet = map[token.Pos]bool{}
	}
	if _, isBlock := stmt.(*ast.BlockStmt); !isBlock && !x.loweredSet[stmt.Pos()] {
		x.loweredSet[stmt.Pos()] = true
		defer func() { x.stmtsLowered = len(x.loweredSet) }()
	}
	switch st := stmt.(type) {
	case *ast.EmptyStmt:
		return outcomes{normal: []*State{s}}
	case *ast.BlockStmt:
		return x.execBlock(s, st.List, entry)
	case *ast.ExprStmt:
		if c, ok := st.X.(*ast.CallExpr); ok {
			if lit, isLit := c.Fun.(*ast.FuncLit); isLit && len(c.Args) == 0 {
				if _, hasContract := x.litContract(lit); !hasContract {
					// an immediately invoked function literal is executed in place
					return outcomes{normal: x.inlineLit(s, lit, entry)}
				}
			}
			x.discardCall = c
		}
		x.evalMulti(s, st.X)
		x.discardCall = nil
		return outcomes{normal: []*State{s}}
	case *ast.DeclStmt:
		gd := st.Decl.(*ast.GenDecl)
		if gd.Tok == token.VAR {
			for _, sp := range gd.Specs {
				vs := sp.(*ast.ValueSpec)
				if len(vs.Values) > 0 {
					vals := x.evalRHS(s, vs.Values, len(vs.Names))
					for i, n := range vs.Names {
						x.define(s, n, vals[i])
					}
				} else {
					for _, n := range vs.Names {
						obj := x.info.Defs[n]
						if obj == nil {
							continue
						}
						x.declareZero(s, obj.(*types.Var))
					}
				}
			}
		}
		return outcomes{normal: []*State{s}}
	case *ast.AssignStmt:
		x.execAssign(s, st)
		return outcomes{normal: []*State{s}}
	case *ast.IncDecStmt:
		cur := x.eval(s, st.X)
		var nv *Term
		if st.Tok == token.INC {
			nv = Add(cur, Num(1))
		} else {
			nv = Sub(cur, Num(1))
		}
		x.assignTo(s, st.X, nv)
		return outcomes{normal: []*State{s}}
	case *ast.IfStmt:
		if st.Init != nil {
			o := x.execStmt(s, st.Init, entry)
			s = o.normal[0]
		}
		cond := x.eval(s, st.Cond)
		var res outcomes
		thenS := s.clone()
		thenS.assume(cond)
		res.add(x.execBlock(thenS, st.Body.List, entry))
		elseS := s.clone()
		elseS.assume(Not(cond))
		if st.Else != nil {
			res.add(x.execStmt(elseS, st.Else, entry))
		} else {
			res.normal = append(res.normal, elseS)
		}
		res.normal = x.merge(res.normal)
		return res
	case *ast.ReturnStmt:
		if n := len(x.inlineStack); n > 0 {
			// return from a function that is being executed in place
			fr := x.inlineStack[n-1]
			var vals []*Term
			if len(st.Results) > 0 {
				vals = x.evalRHS(s, st.Results, len(fr.resultVars))
				if len(st.Results) == len(fr.resultVars) {
					for i, re := range st.Results {
						if id, ok := ast.Unparen(re).(*ast.Ident); ok {
							if _, isNil := x.info.Uses[id].(*types.Nil); isNil {
								vals[i] = x.u.zero(fr.resultSorts[i])
							}
						}
					}
				}
			} else {
				for _, rv := range fr.resultVars {
					vals = append(vals, s.vars[rv])
				}
			}
			fr.rets = append(fr.rets, inlineRet{st: s, vals: vals})
			return outcomes{}
		}
		var vals []*Term
		if len(st.Results) > 0 {
			vals = x.evalRHS(s, st.Results, len(x.resultVars))
			if len(st.Results) == len(x.resultVars) {
				for i, re := range st.Results {
					if id, ok := ast.Unparen(re).(*ast.Ident); ok {
						if _, isNil := x.info.Uses[id].(*types.Nil); isNil {
							vals[i] = x.u.zero(x.resultSorts[i])
						}
					}
				}
			}
		}
		x.doReturn(s, vals, entry, st.Pos())
		return outcomes{}
	case *ast.BranchStmt:
		if st.Label != nil {
			if st.Tok != token.BREAK && st.Tok != token.CONTINUE {
				x.fail(st, "goto")
			}
			s.label = st.Label.Name
		}
		switch st.Tok {
		case token.BREAK:
			return outcomes{brk: []*State{s}}
		case token.CONTINUE:
			return outcomes{cont: []*State{s}}
		}
		x.fail(st, "unsupported branch %s", st.Tok)
	case *ast.DeferStmt:
		// only plain calls whose arguments are evaluated now are supported: we require no arguments or
		// receiver-only calls (Unlock, RUnlock, Close).
		if len(st.Call.Args) != 0 {
			x.fail(st, "defer with arguments")
		}
		if lit, ok := st.Call.Fun.(*ast.FuncLit); ok {
			if _, hasContract := x.litContract(lit); !hasContract {
				x.checkInlinable(lit)
			}
		}
		if x.deferIdx == nil {
			x.deferIdx = map[*ast.DeferStmt]int{}
		}
		idx, seen := x.deferIdx[st]
		if !seen {
			idx = len(x.deferIdx)
			x.deferIdx[st] = idx
		}
		// the deferred call runs at a return only on paths that executed this statement
		found := false
		for _, d := range x.defers {
			if d.call == st.Call {
				found = true
			}
		}
		if !found {
			x.defers = append(x.defers, deferred{call: st.Call, flag: fmt.Sprintf("defer$%d", idx)})
		}
		x.setSt(s, fmt.Sprintf("defer$%d", idx), True)
		return outcomes{normal: []*State{s}}
	case *ast.ForStmt:
		return x.execFor(s, st, entry)
	case *ast.RangeStmt:
		return x.execRange(s, st, entry)
	case *ast.SwitchStmt:
		return x.execSwitch(s, st, entry)
	case *ast.TypeSwitchStmt:
		return x.execTypeSwitch(s, st, entry)
	case *ast.GoStmt:
		x.fail(st, "goroutine")
	case *ast.LabeledStmt:
		switch st.Stmt.(type) {
		case *ast.ForStmt, *ast.RangeStmt, *ast.SwitchStmt, *ast.TypeSwitchStmt:
			x.pendingLabel = st.Label.Name
			return x.execStmt(s, st.Stmt, entry)
		}
		x.fail(st, "label on a statement that is neither a loop nor a switch")
	}
	x.fail(stmt, "unsupported statement %T", stmt)
	return outcomes{}
}

func (x *Exec) declareZero(s *State, v *types.Var) {
	t := v.Type()
	srt := x.u.sortOf(t)
	var val *Term
	if x.isHeapStructType(t) {
		val = x.newHeapStruct(s, t, nil, nil)
	} else {
		val = x.u.zero(srt)
	}
	val = withType(val, t)
	x.defineVar(s, v, val)
}

func withType(t *Term, ty types.Type) *Term {
	if t.GoType == ty || ty == nil {
		return t
	}
	n := *t
	n.GoType = ty
	return &n
}

func (x *Exec) defineVar(s *State, v *types.Var, val *Term) {
	if x.boxed[v] {
		cell := x.allocRef(s, "box."+v.Name())
		pv, srt := x.u.ptrVar(v.Type())
		x.setSt(s, pv, Store(x.getSt(s, pv, arraySort(SRef, srt)), cell, val))
		s.vars[v] = cell
		return
	}
	s.vars[v] = x.named(s, v.Name(), val)
}

func (x *Exec) define(s *State, id *ast.Ident, val *Term) {
	if id.Name == "_" {
		return
	}
	obj := x.info.Defs[id]
	if obj == nil {
		// redeclaration in := with existing variable
		obj = x.info.Uses[id]
		if obj == nil {
			x.fail(id, "cannot resolve %s", id.Name)
		}
		x.assignTo(s, id, val)
		return
	}
	v := obj.(*types.Var)
	// heap struct values are copied on assignment (library struct values are immutable here: shared)
	if x.isHeapStructType(v.Type()) && val.Sort == SRef {
		if n := namedOf(v.Type()); n != nil {
			if _, inRepo := x.u.Pkgs[pkgShort(n.Obj().Pkg())]; inRepo {
				val = x.copyHeapStruct(s, v.Type(), val)
			}
		}
	}
	x.defineVar(s, v, withType(val, v.Type()))
}

// evalRHS evaluates a right-hand side list that must produce n values.
func (x *Exec) evalRHS(s *State, rhs []ast.Expr, n int) []*Term {
	if len(rhs) == n {
		out := make([]*Term, n)
		for i, e := range rhs {
			out[i] = x.eval(s, e)
		}
		return out
	}
	if len(rhs) == 1 {
		vals := x.evalMulti(s, rhs[0])
		if len(vals) != n {
			x.fail(rhs[0], "expected %d values, got %d", n, len(vals))
		}
		return vals
	}
	x.fail(rhs[0], "assignment arity mismatch")
	return nil
}

func (x *Exec) execAssign(s *State, st *ast.AssignStmt) {
	switch st.Tok {
	case token.DEFINE:
		// remember closures bound to local variables
		if len(st.Lhs) == 1 && len(st.Rhs) == 1 {
			if fl, ok := st.Rhs[0].(*ast.FuncLit); ok {
				if obj := x.info.Defs[st.Lhs[0].(*ast.Ident)]; obj != nil {
					x.closureVar[obj] = x.u.LitOf[fl]
				}
			}
			// function value alias: differ := getUnifiedDiff
		}
		vals := x.evalRHS(s, st.Rhs, len(st.Lhs))
		for i, l := range st.Lhs {
			x.define(s, l.(*ast.Ident), vals[i])
		}
	case token.ASSIGN:
		if len(st.Lhs) == 1 && len(st.Rhs) == 1 {
			if fl, ok := st.Rhs[0].(*ast.FuncLit); ok {
				if id, ok := st.Lhs[0].(*ast.Ident); ok {
					if obj := x.info.Uses[id]; obj != nil {
						x.closureVar[obj] = x.u.LitOf[fl]
					}
				}
			}
		}
		vals := x.evalRHS(s, st.Rhs, len(st.Lhs))
		for i, l := range st.Lhs {
			// untyped nil takes the type of the assigned location
			if len(st.Rhs) == len(st.Lhs) {
				if id, ok := ast.Unparen(st.Rhs[i]).(*ast.Ident); ok {
					if _, isNil := x.info.Uses[id].(*types.Nil); isNil {
						vals[i] = x.u.zero(x.u.sortOf(x.info.TypeOf(l)))
					}
				}
			}
			x.assignTo(s, l, vals[i])
		}
	default:
		// compound assignment
		cur := x.eval(s, st.Lhs[0])
		rhs := x.eval(s, st.Rhs[0])
		var nv *Term
		switch st.Tok {
		case token.ADD_ASSIGN:
			if cur.Sort == SStr {
				nv = catTerms(cur, rhs)
			} else {
				nv = Add(cur, rhs)
			}
		case token.SUB_ASSIGN:
			nv = Sub(cur, rhs)
		default:
			x.fail(st, "unsupported compound assignment %s", st.Tok)
		}
		x.assignTo(s, st.Lhs[0], nv)
	}
}

// assignTo stores val into the lvalue expression.
func (x *Exec) assignTo(s *State, lhs ast.Expr, val *Term) {
	switch l := lhs.(type) {
	case *ast.Ident:
		if l.Name == "_" {
			return
		}
		obj := x.info.Uses[l]
		if obj == nil {
			obj = x.info.Defs[l]
		}
		v, ok := obj.(*types.Var)
		if !ok {
			x.fail(l, "assignment to non-variable")
		}
		if v.Parent() == v.Pkg().Scope() {
			// package-level variable
			if x.isHeapStructType(v.Type()) {
				x.copyInto(s, v.Type(), V(x.u.globalVar(v), SRef), val)
				return
			}
			x.setSt(s, x.u.globalVar(v), val)
			return
		}
		if x.boxed[v] {
			pv, srt := x.u.ptrVar(v.Type())
			x.setSt(s, pv, Store(x.getSt(s, pv, arraySort(SRef, srt)), s.vars[v], val))
			return
		}
		if x.isHeapStructType(v.Type()) {
			if cur, ok := s.vars[v]; ok {
				x.copyInto(s, v.Type(), cur, val)
				return
			}
		}
		s.vars[v] = withType(x.named(s, v.Name(), val), v.Type())
	case *ast.ParenExpr:
		x.assignTo(s, l.X, val)
	case *ast.StarExpr:
		p := x.eval(s, l.X)
		x.obligeNoPanic(s, Neq(p, V("null", SRef)), "nil dereference", l)
		elem := x.info.TypeOf(l.X).Underlying().(*types.Pointer).Elem()
		if x.isHeapStructType(elem) {
			x.copyInto(s, elem, p, val)
			return
		}
		pv, srt := x.u.ptrVar(elem)
		x.setSt(s, pv, Store(x.getSt(s, pv, arraySort(SRef, srt)), p, val))
	case *ast.SelectorExpr:
		// field write
		sel := x.info.Selections[l]
		if sel == nil {
			// qualified identifier pkg.Var
			if v, ok := x.info.Uses[l.Sel].(*types.Var); ok {
				x.setSt(s, x.u.globalVar(v), val)
				return
			}
			x.fail(l, "unsupported selector assignment")
		}
		base, named := x.evalFieldBase(s, l, sel)
		if named == nil {
			// value struct held in a variable: functional update
			cur := x.eval(s, l.X)
			si := x.u.structs[cur.Sort]
			var args []*Term
			for i, f := range si.Fields {
				if f == l.Sel.Name {
					args = append(args, val)
				} else {
					args = append(args, mk(cur.Sort+"_"+f, si.FSorts[i], cur))
				}
			}
			x.assignTo(s, l.X, mk("mk_"+cur.Sort, cur.Sort, args...))
			return
		}
		x.obligeNoPanic(s, Neq(base, V("null", SRef)), "nil dereference", l)
		x.checkGuard(s, named, l.Sel.Name, base, true, l)
		x.checkWriteFrame(s, x.u.fieldVar(named, l.Sel.Name), base, l)
		fv := x.u.fieldVar(named, l.Sel.Name)
		ft := sel.Obj().Type()
		fs := x.u.sortOf(ft)
		if x.isHeapStructType(ft) {
			x.copyInto(s, ft, Select(x.getSt(s, fv, arraySort(SRef, SRef)), base), val)
			return
		}
		x.setSt(s, fv, Store(x.getSt(s, fv, arraySort(SRef, fs)), base, val))
	case *ast.IndexExpr:
		ct := x.info.TypeOf(l.X)
		switch ut := ct.Underlying().(type) {
		case *types.Map:
			m := x.eval(s, l.X)
			k := x.eval(s, l.Index)
			x.obligeNoPanic(s, Neq(m, V("null", SRef)), "assignment to entry in nil map", l)
			x.mapStore(s, ut, m, k, val)
		case *types.Slice:
			sl := x.eval(s, l.X)
			i := x.eval(s, l.Index)
			if sl.Sort == SStr {
				x.fail(l, "byte slice element assignment")
			}
			x.obligeNoPanic(s, And(Le(Num(0), i), Lt(i, sliceLen(sl))), "index out of range", l)
			x.noteSliceWrite(l.X)
			nv := x.u.mkSlice(sl.Sort, sliceLen(sl), Store(x.u.sliceArr(sl), i, val))
			x.assignTo(s, l.X, nv)
		default:
			x.fail(l, "unsupported index assignment on %s", ct)
		}
	default:
		x.fail(lhs, "unsupported lvalue %T", lhs)
	}
}

// noteSliceWrite records the modelling assumption that slices are values.
func (x *Exec) noteSliceWrite(e ast.Expr) {
	x.assumptions["slices are modelled as values: element assignment to "+exprString(e)+" in "+x.fi.Name+" is assumed not to be observed through an alias"] = true
}

func exprString(e ast.Expr) string {
	return types.ExprString(e)
}

func (x *Exec) obligeNoPanic(s *State, goal *Term, what string, n ast.Node) {
	if isTrue(goal) {
		return
	}
	x.nNoPanic++
	pos := x.u.Fset.Position(n.Pos())
	x.oblige(s, "nopanic", fmt.Sprintf("%d", x.nNoPanic), goal, what+" at "+exprStringNode(n), fmt.Sprintf("%s:%d", x.fi.File, pos.Line))
}

func exprStringNode(n ast.Node) string {
	if e, ok := n.(ast.Expr); ok {
		return types.ExprString(e)
	}
	return fmt.Sprintf("%T", n)
}

// ---------------------------------------------------------------------------
// heap structs

func namedOf(t types.Type) *types.Named {
	t = types.Unalias(t)
	if p, ok := t.(*types.Pointer); ok {
		t = types.Unalias(p.Elem())
	}
	n, _ := t.(*types.Named)
	return n
}

// newHeapStruct allocates a fresh cell of struct type t with zero fields, then applies field inits.
func (x *Exec) newHeapStruct(s *State, t types.Type, fields []string, vals []*Term) *Term {
	n := namedOf(t)
	if n == nil {
		x.fail(nil, "anonymous heap struct")
	}
	r := x.allocRef(s, "new."+n.Obj().Name())
	r.GoType = t
	st, ok := n.Underlying().(*types.Struct)
	if !ok {
		return r
	}
	for i := 0; i < st.NumFields(); i++ {
		f := st.Field(i)
		if _, inRepo := x.u.Pkgs[pkgShort(n.Obj().Pkg())]; !inRepo && !f.Exported() {
			continue // unexported fields of library types are opaque
		}
		fv := x.u.fieldVar(n, f.Name())
		var val *Term
		if x.isHeapStructType(f.Type()) {
			if _, inRepo := x.u.Pkgs[pkgShort(n.Obj().Pkg())]; !inRepo {
				continue // nested library structs are opaque
			}
			val = x.newHeapStruct(s, f.Type(), nil, nil)
		} else {
			val = x.u.zero(x.u.sortOf(f.Type()))
		}
		for j, fn := range fields {
			if fn == f.Name() {
				val = vals[j]
			}
		}
		x.setSt(s, fv, Store(x.getSt(s, fv, arraySort(SRef, val.Sort)), r, val))
	}
	for _, gz := range x.u.ghostZeroInits(x.u.namedKey(n)) {
		gs := x.u.ghostSorts[gz]
		_, vs, _ := isArraySort(gs)
		x.setSt(s, gz, Store(x.getSt(s, gz, gs), r, x.u.zero(vs)))
	}
	return r
}

func (x *Exec) copyHeapStruct(s *State, t types.Type, src *Term) *Term {
	n := namedOf(t)
	r := x.allocRef(s, "copy."+n.Obj().Name())
	r.GoType = t
	x.copyInto(s, t, r, src)
	return r
}

func (x *Exec) copyInto(s *State, t types.Type, dst, src *Term) {
	n := namedOf(t)
	st, ok := n.Underlying().(*types.Struct)
	if !ok {
		return
	}
	for _, gz := range x.u.ghostZeroInits(x.u.namedKey(n)) {
		gs := x.u.ghostSorts[gz]
		cur := x.getSt(s, gz, gs)
		x.setSt(s, gz, Store(cur, dst, Select(cur, src)))
	}
	if _, inRepo := x.u.Pkgs[pkgShort(n.Obj().Pkg())]; !inRepo {
		switch x.u.namedKey(n) {
		case "strings.Builder", "bytes.Buffer", "sync.Mutex", "sync.RWMutex":
			return
		}
	}
	for i := 0; i < st.NumFields(); i++ {
		f := st.Field(i)
		fv := x.u.fieldVar(n, f.Name())
		fs := x.u.sortOf(f.Type())
		cur := x.getSt(s, fv, arraySort(SRef, fs))
		if x.isHeapStructType(f.Type()) {
			x.copyInto(s, f.Type(), Select(cur, dst), Select(cur, src))
			continue
		}
		x.setSt(s, fv, Store(cur, dst, Select(cur, src)))
	}
}

// ghostZeroInits lists ghost heap arrays that must be zero-initialised when an object of a library type is created.
func (u *Universe) ghostZeroInits(typeKey string) []string {
	switch typeKey {
	case "strings.Builder", "bytes.Buffer":
		return []string{"wbuf"}
	case "sync.Mutex", "sync.RWMutex":
		return []string{"held"}
	}
	return nil
}

// ---------------------------------------------------------------------------
// maps

func (x *Exec) mapLoad(s *State, mt *types.Map, m, k *Term) (val, ok *Term) {
	dn, vn, ks, vs := x.u.mapVars(mt)
	dom := Select(x.getSt(s, dn, arraySort(SRef, arraySort(ks, SBool))), m)
	vals := Select(x.getSt(s, vn, arraySort(SRef, arraySort(ks, vs))), m)
	ok = And(Neq(m, V("null", SRef)), Select(dom, k))
	val = Ite(ok, Select(vals, k), x.u.zero(vs))
	val = withType(val, mt.Elem())
	if vs == SRef {
		// heap well-formedness: references stored in the heap are allocated
		alloc := x.getSt(s, "alloc", arraySort(SRef, SBool))
		s.assume(Or(Eq(val, V("null", SRef)), Select(alloc, val)))
	}
	return
}

func (x *Exec) mapStore(s *State, mt *types.Map, m, k, v *Term) {
	dn, vn, ks, vs := x.u.mapVars(mt)
	D := x.getSt(s, dn, arraySort(SRef, arraySort(ks, SBool)))
	Vv := x.getSt(s, vn, arraySort(SRef, arraySort(ks, vs)))
	x.setSt(s, dn, Store(D, m, Store(Select(D, m), k, True)))
	x.setSt(s, vn, Store(Vv, m, Store(Select(Vv, m), k, v)))
}

func (x *Exec) mapDelete(s *State, mt *types.Map, m, k *Term) {
	dn, _, ks, _ := x.u.mapVars(mt)
	D := x.getSt(s, dn, arraySort(SRef, arraySort(ks, SBool)))
	x.setSt(s, dn, Store(D, m, Store(Select(D, m), k, False)))
}

func (x *Exec) mapNew(s *State, mt *types.Map) *Term {
	dn, vn, ks, vs := x.u.mapVars(mt)
	r := x.allocRef(s, "map")
	D := x.getSt(s, dn, arraySort(SRef, arraySort(ks, SBool)))
	Vv := x.getSt(s, vn, arraySort(SRef, arraySort(ks, vs)))
	x.setSt(s, dn, Store(D, r, &Term{Op: "const-array", Sort: arraySort(ks, SBool), Args: []*Term{False}}))
	x.setSt(s, vn, Store(Vv, r, &Term{Op: "const-array", Sort: arraySort(ks, vs), Args: []*Term{x.u.zero(vs)}}))
	return r
}

// ---------------------------------------------------------------------------
// return, defers, postconditions, frame

func (x *Exec) doReturn(s *State, vals []*Term, entry *State, pos token.Pos) {
	x.nReturn++
	line := x.u.Fset.Position(pos).Line
	tag := fmt.Sprintf("@ret%d", x.returnOrdinal(pos))
	// named results
	if vals == nil && len(x.resultVars) > 0 {
		for _, rv := range x.resultVars {
			if rv.Name() == "" || rv.Name() == "_" {
				x.fail(nil, "bare return with unnamed results")
			}
			vals = append(vals, s.vars[rv])
		}
	}
	for i, rv := range x.resultVars {
		if rv.Name() != "" && rv.Name() != "_" {
			s.vars[rv] = vals[i]
		}
	}
	// deferred calls, LIFO; a defer statement that is not executed on every path forks the return
	states := []*State{s}
	for i := len(x.defers) - 1; i >= 0; i-- {
		d := x.defers[i]
		var next []*State
		for _, st := range states {
			c := x.getSt(st, d.flag, SBool)
			switch {
			case isFalse(c):
				next = append(next, st)
			case isTrue(c):
				next = append(next, x.runDeferred(st, d.call, entry)...)
			default:
				a := st.clone()
				a.assume(c)
				next = append(next, x.runDeferred(a, d.call, entry)...)
				st.assume(Not(c))
				next = append(next, st)
			}
		}
		states = next
	}
	for _, st := range states {
		v := vals
		// a deferred closure may have assigned named results
		named := len(x.resultVars) > 0
		for _, rv := range x.resultVars {
			if rv.Name() == "" || rv.Name() == "_" {
				named = false
			}
		}
		if named && len(x.defers) > 0 {
			v = nil
			for _, rv := range x.resultVars {
				v = append(v, st.vars[rv])
			}
		}
		x.finishReturn(st, v, entry, tag, line)
	}
}

// runDeferred executes one deferred call at a return.
func (x *Exec) runDeferred(s *State, call *ast.CallExpr, entry *State) []*State {
	if lit, ok := call.Fun.(*ast.FuncLit); ok {
		if _, hasContract := x.litContract(lit); !hasContract {
			return x.inlineLit(s, lit, entry)
		}
	}
	x.evalCall(s, call)
	return []*State{s}
}

// litContract: the contract of a function literal (outer$N), if one was written.
func (x *Exec) litContract(lit *ast.FuncLit) (*Contract, bool) {
	fi := x.u.LitOf[lit]
	if fi == nil {
		return nil, false
	}
	c, ok := x.u.Specs.Contracts[fi.Name]
	return c, ok
}

// checkInlinable: a parameterless function literal without results and without return statements can be executed in
// place (its free variables are the variables of the enclosing function).
func (x *Exec) checkInlinable(lit *ast.FuncLit) {
	if lit.Type.Params != nil && len(lit.Type.Params.List) > 0 || lit.Type.Results != nil && len(lit.Type.Results.List) > 0 {
		x.fail(lit, "function literal without contract: only parameterless literals without results are executed in place")
	}
	ast.Inspect(lit.Body, func(n ast.Node) bool {
		switch n.(type) {
		case *ast.ReturnStmt:
			x.fail(n, "return inside a function literal that has no contract")
		case *ast.FuncLit:
			return false
		}
		return true
	})
}

func (x *Exec) inlineLit(s *State, lit *ast.FuncLit, entry *State) []*State {
	x.checkInlinable(lit)
	o := x.execBlock(s, lit.Body.List, entry)
	if len(o.brk) > 0 || len(o.cont) > 0 {
		x.fail(lit, "break/continue out of a function literal")
	}
	return o.normal
}

// checkWriteFrame: a store to a field of an object that was allocated at entry must be covered by the assigns clause at
// the time of the store - a write that is undone before the function returns is still a write (another goroutine
// or a callee may observe it).
func (x *Exec) checkWriteFrame(s *State, fieldVar string, base *Term, n ast.Node) {
	if x.c == nil || !x.c.HasAssigns || x.entryState == nil || x.suppress {
		return
	}
	targets := x.resolveAssigns(x.c.Assigns, x.envFor(x.entryState, x.entryState, token.NoPos))
	alts := []*Term{Not(Select(x.getSt(x.entryState, "alloc", arraySort(SRef, SBool)), base))}
	for _, t := range targets {
		if t.Var != fieldVar {
			continue
		}
		if t.Idx == nil {
			return // the whole field heap is assignable
		}
		alts = append(alts, Eq(base, t.Idx[0]))
	}
	x.nWFrame++
	pos := x.u.Fset.Position(n.Pos())
	x.oblige(s, "wframe", fmt.Sprintf("%s.%d", strings.TrimPrefix(fieldVar, "H."), x.nWFrame), Or(alts...),
		"store to "+exprStringNode(n)+": the object was allocated at entry and the field is not in the assigns clause (a transient write is still a write)", fmt.Sprintf("%s:%d", x.fi.File, pos.Line))
}

func (x *Exec) finishReturn(s *State, vals []*Term, entry *State, tag string, line int) {
	// cover: the return must be reachable
	isDead := false
	for _, d := range x.c.Dead {
		if "@"+d == tag {
			isDead = true
		}
	}
	if isDead {
		x.oblige(s, "dead", "return"+tag, False, "this return is declared unreachable (defensive code)", x.c.Pos)
		return
	}
	if !x.suppress {
		if x.c.Options["paths"] {
			// with one state per path some paths are infeasible by design: the return must be reachable on one of them
			if x.coverPCs == nil {
				x.coverPCs = map[string][]*Term{}
				x.coverPos = map[string]string{}
			}
			x.coverPCs[tag] = append(x.coverPCs[tag], And(s.pc...))
			x.coverPos[tag] = fmt.Sprintf("%s:%d", x.fi.File, line)
		} else {
			x.obls = append(x.obls, &Obligation{Func: x.fi.Name, Name: x.uniq(fmt.Sprintf("%s#cover#return%s", x.fi.Name, tag)), Kind: "cover", Hyps: append([]*Term(nil), s.pc...), Goal: False, Mode: x.mode, ExpectSat: true, Text: "return reachable", Pos: fmt.Sprintf("%s:%d", x.fi.File, line), LemmaIndex: -1})
		}
	}
	env := x.envFor(s, entry, token.NoPos)
	// in postconditions parameter names denote the values at entry (Go parameters are mutable locals)
	for o, t := range x.entryVars {
		if v, ok := o.(*types.Var); ok {
			env.bound[v.Name()] = withType(t, v.Type())
		}
	}
	for i, n := range x.resultNames {
		env.bound[n] = withType(vals[i], x.resultTypes[i])
	}
	x.curRets = vals
	for i, e := range x.c.Ensures {
		label := e.Label
		if label == "" {
			label = fmt.Sprintf("%d", i+1)
		}
		goal := x.trBool(e.Expr, env)
		x.curEnsIdx, x.curRetTag = i+1, tag
		if strings.HasPrefix(e.Label, "assumed") {
			// a postcondition that links the code to an abstraction of a library data structure: used by callers,
			// not checked against the body; listed among the assumptions
			x.assumptions["postcondition "+x.fi.Name+"#"+e.Label+" is assumed, not checked against the body: "+e.Text] = true
			continue
		}
		x.obligeSplit(s, "ensures", label+tag, goal, e.Text, e.Pos)
		// later postconditions may use earlier ones (all of them must hold)
		s.assume(goal)
	}
	x.curEnsIdx, x.curRetTag = 0, ""
	x.checkFrame(s, entry, x.c.Assigns, x.c.HasAssigns, "frame", tag, x.envFor(entry, entry, token.NoPos))
}

func (x *Exec) unfoldable(t *Term) bool {
	f, ok := x.u.Specs.Funs[t.Op]
	if !ok || f.Body == nil || !modeOK(f.Mode, x.mode) || thePrelude == nil {
		return false
	}
	_, ok = thePrelude.funBody[t.Op]
	return ok && len(t.Args) == len(f.Params)
}

// obligeSplit splits conjunctions into separate obligations.
func (x *Exec) obligeSplit(s *State, kind, label string, goal *Term, text, pos string) {
	if goal.Op == "and" {
		for i, a := range goal.Args {
			x.obligeSplit(s, kind, fmt.Sprintf("%s.%d", label, i+1), a, text, pos)
		}
		return
	}
	if goal.Op == "=>" && goal.Args[1].Op == "and" {
		for i, a := range goal.Args[1].Args {
			x.obligeSplit(s, kind, fmt.Sprintf("%s.%d", label, i+1), Implies(goal.Args[0], a), text, pos)
		}
		return
	}
	if goal.Op == "=>" && (goal.Args[1].Op == "forall" || goal.Args[1].Op == "=>" || x.unfoldable(goal.Args[1])) {
		// move the hypothesis into the path condition of a private copy and continue with the conclusion
		c := s.clone()
		c.assume(goal.Args[0])
		x.obligeSplit(c, kind, label, goal.Args[1], text, pos)
		return
	}
	// a goal that is an application of a defined specification function is unfolded so that it can be split
	if f, ok := x.u.Specs.Funs[goal.Op]; ok && f.Body != nil && modeOK(f.Mode, x.mode) && thePrelude != nil {
		if body, ok := thePrelude.funBody[goal.Op]; ok && len(goal.Args) == len(f.Params) {
			m := map[string]*Term{}
			for i, pn := range f.Params {
				m[pn] = goal.Args[i]
			}
			x.obligeSplit(s, kind, label, subst(body, m), text, pos)
			return
		}
	}
	if goal.Op == "forall" && len(goal.Pats) == 0 {
		m := map[string]*Term{}
		for _, b := range goal.Bind {
			m[b.Op] = x.fresh("sk."+b.Op, b.Sort)
		}
		x.obligeSplit(s, kind, label, subst(goal.Args[0], m), text, pos)
		return
	}
	x.oblige(s, kind, label, goal, text, pos)
}

// assignTarget describes one entry of an assigns clause, resolved in the pre-state.
type assignTarget struct {
	Var  string  // state variable
	Sort string  // its sort (when known at resolution time)
	Idx  []*Term // nil => whole variable; else cell path: for heap arrays [ref]; for maps [ref, key]
	Text string
}

func (x *Exec) resolveAssigns(list []*SExpr, env *TrEnv) []assignTarget {
	var out []assignTarget
	for _, e := range list {
		out = append(out, x.resolveAssign(e, env)...)
	}
	return out
}

func (x *Exec) resolveAssign(e *SExpr, env *TrEnv) []assignTarget {
	switch e.Kind {
	case "id":
		// ghost var, global, or well-known heap names
		if srt, ok := x.u.ghostSorts[e.Name]; ok {
			_ = srt
			return []assignTarget{{Var: e.Name, Text: e.Name}}
		}
		if e.Name == "alloc" {
			return []assignTarget{{Var: "alloc", Text: "alloc"}}
		}
		if strings.HasPrefix(e.Name, "H.") || strings.HasPrefix(e.Name, "Md.") || strings.HasPrefix(e.Name, "Mv.") || strings.HasPrefix(e.Name, "P.") || strings.HasPrefix(e.Name, "g.") {
			return []assignTarget{{Var: e.Name, Text: e.Name}}
		}
		// package-level variable of this package
		if obj := env.pkgScope(x).Lookup(e.Name); obj != nil {
			if v, ok := obj.(*types.Var); ok {
				return []assignTarget{{Var: x.u.globalVar(v), Sort: x.u.sortOf(v.Type()), Text: e.Name}}
			}
		}
		// a local/param of heap struct type: all fields of that cell
		t := x.trExpr(e, env)
		if t.GoType != nil && (x.isHeapStructType(t.GoType) || isPtrToHeapStruct(x, t.GoType)) {
			return x.allFieldsOf(t)
		}
		panic(unsupported{fmt.Sprintf("%s: cannot resolve assigns target %s", e.Pos, e.Name)})
	case "call":
		// heap(T.f) whole heap array; maps(K,V)
		if e.Name == "cell" && len(e.Args) == 2 && e.Args[0].Kind == "id" {
			srt := e.Args[0].Name
			ref := x.trExpr(e.Args[1], env)
			return []assignTarget{{Var: "P." + mangle(srt), Sort: arraySort(SRef, srt), Idx: []*Term{ref}, Text: "cell(" + srt + ")"}}
		}
		if e.Name == "ptrs" && len(e.Args) == 1 && e.Args[0].Kind == "id" {
			srt := e.Args[0].Name
			return []assignTarget{{Var: "P." + mangle(srt), Sort: arraySort(SRef, srt), Text: "ptrs(" + srt + ")"}}
		}
		if e.Name == "fields" && len(e.Args) == 1 {
			t := x.trExpr(e.Args[0], env)
			return x.allFieldsOf(t)
		}
	case "sel":
		// pkg.Var ?
		if e.Args[0].Kind == "id" {
			if p, ok := x.u.Pkgs[e.Args[0].Name]; ok {
				if obj := p.Types.Scope().Lookup(e.Name); obj != nil {
					if v, ok := obj.(*types.Var); ok {
						return []assignTarget{{Var: x.u.globalVar(v), Text: e.Args[0].Name + "." + e.Name}}
					}
				}
			}
			// Type.field : whole heap array of a struct type of this package
			if obj := env.pkgScope(x).Lookup(e.Args[0].Name); obj != nil {
				if tn, ok := obj.(*types.TypeName); ok {
					if n, ok := tn.Type().(*types.Named); ok {
						return []assignTarget{{Var: x.u.fieldVar(n, e.Name), Text: e.Args[0].Name + "." + e.Name}}
					}
				}
			}
		}
		base := x.trExpr(e.Args[0], env)
		n := namedOf(base.GoType)
		if n == nil {
			panic(unsupported{fmt.Sprintf("%s: assigns target %s.%s: base has no struct type", e.Pos, e.Args[0].Name, e.Name)})
		}
		fsort := ""
		if st, ok := n.Underlying().(*types.Struct); ok {
			if ft := fieldType(st, e.Name); ft != nil {
				fsort = arraySort(SRef, x.u.sortOf(ft))
			}
		}
		return []assignTarget{{Var: x.u.fieldVar(n, e.Name), Sort: fsort, Idx: []*Term{base}, Text: e.Name}}
	case "index":
		base := e.Args[0]
		idx := x.trExpr(e.Args[1], env)
		// ghost array cell
		if base.Kind == "id" {
			if _, ok := x.u.ghostSorts[base.Name]; ok {
				return []assignTarget{{Var: base.Name, Idx: []*Term{idx}, Text: base.Name + "[..]"}}
			}
		}
		bt := x.trExpr(base, env)
		if bt.GoType != nil {
			if mt, ok := bt.GoType.Underlying().(*types.Map); ok {
				dn, vn, ks, vs := x.u.mapVars(mt)
				return []assignTarget{{Var: dn, Sort: arraySort(SRef, arraySort(ks, SBool)), Idx: []*Term{bt, idx}, Text: "map cell"},
					{Var: vn, Sort: arraySort(SRef, arraySort(ks, vs)), Idx: []*Term{bt, idx}, Text: "map cell"}}
			}
		}
		panic(unsupported{fmt.Sprintf("%s: unsupported indexed assigns target", e.Pos)})
	case "unary":
		if e.Name == "*" {
			p := x.trExpr(e.Args[0], env)
			if pt, ok := p.GoType.Underlying().(*types.Pointer); ok {
				if x.isHeapStructType(pt.Elem()) {
					return x.allFieldsOf(p)
				}
				pv, ps := x.u.ptrVar(pt.Elem())
				return []assignTarget{{Var: pv, Sort: arraySort(SRef, ps), Idx: []*Term{p}, Text: "*p"}}
			}
		}
	}
	panic(unsupported{fmt.Sprintf("%s: unsupported assigns target", e.Pos)})
}

func isPtrToHeapStruct(x *Exec, t types.Type) bool {
	if p, ok := types.Unalias(t).Underlying().(*types.Pointer); ok {
		return x.isHeapStructType(p.Elem())
	}
	return false
}

func (x *Exec) allFieldsOf(ref *Term) []assignTarget {
	n := namedOf(ref.GoType)
	st, ok := n.Underlying().(*types.Struct)
	if !ok {
		return nil
	}
	var out []assignTarget
	for i := 0; i < st.NumFields(); i++ {
		out = append(out, assignTarget{Var: x.u.fieldVar(n, st.Field(i).Name()), Sort: arraySort(SRef, x.u.sortOf(st.Field(i).Type())), Idx: []*Term{ref}, Text: st.Field(i).Name()})
	}
	return out
}

// applyHavoc havocs the targets in state s.
func (x *Exec) applyHavoc(s *State, targets []assignTarget) {
	for _, t := range targets {
		srt := x.u.stateSorts[t.Var]
		if srt == "" {
			if gs, ok := x.u.ghostSorts[t.Var]; ok {
				srt = gs
			}
		}
		cur := x.getStAny(s, t.Var)
		if cur == nil && t.Sort != "" {
			cur = x.getSt(s, t.Var, t.Sort)
		}
		if cur == nil {
			panic(unsupported{"assigns target " + t.Var + " has unknown sort"})
		}
		switch len(t.Idx) {
		case 0:
			x.setSt(s, t.Var, x.fresh("h."+t.Var, cur.Sort))
		case 1:
			_, vs, _ := isArraySort(cur.Sort)
			x.setSt(s, t.Var, Store(cur, t.Idx[0], x.fresh("h."+t.Var, vs)))
		case 2:
			_, inner, _ := isArraySort(cur.Sort)
			_, vs, _ := isArraySort(inner)
			x.setSt(s, t.Var, Store(cur, t.Idx[0], Store(Select(cur, t.Idx[0]), t.Idx[1], x.fresh("h."+t.Var, vs))))
		}
	}
}

func (x *Exec) getStAny(s *State, name string) *Term {
	if t, ok := s.st[name]; ok {
		return t
	}
	if t, ok := x.initSt[name]; ok {
		return t
	}
	srt := x.u.stateSorts[name]
	if srt == "" {
		srt = x.u.ghostSorts[name]
	}
	if srt == "" {
		return nil
	}
	return x.initOf(name, srt)
}

// checkFrame: every state variable changed w.r.t. base must be covered by targets.
func (x *Exec) checkFrame(s *State, base *State, assigns []*SExpr, has bool, kind, tag string, env *TrEnv) {
	targets := x.resolveAssigns(assigns, env)
	for _, name := range sortedKeys(s.st) {
		cur := s.st[name]
		var old *Term
		if b, ok := base.st[name]; ok {
			old = b
		} else {
			old = x.initOf(name, cur.Sort)
		}
		if cur == old || name == "alloc" || name == "stdout" || strings.HasPrefix(name, "defer$") {
			// stdout: no property constrains what is printed besides the summary text (a function result); an added
			// diagnostic print must not be reported as a frame violation
			continue
		}
		// boxed locals live in P.* heaps at fresh refs: covered by the allocation rule below
		var cells [][]*Term
		whole := false
		for _, t := range targets {
			if t.Var == name {
				if t.Idx == nil {
					whole = true
				} else {
					cells = append(cells, t.Idx)
				}
			}
		}
		if whole {
			continue
		}
		k, v, isArr := isArraySort(cur.Sort)
		isHeap := isArr && k == SRef
		if !isArr {
			x.oblige(s, kind, name+tag, Eq(cur, old), "state variable "+name+" is not in the assigns clause", x.c.Pos)
			continue
		}
		r := V("r?", k)
		var guard []*Term
		if isHeap {
			allocOld := x.getSt(base, "alloc", arraySort(SRef, SBool))
			guard = append(guard, Select(allocOld, r))
		}
		twoLevel := false
		for _, c := range cells {
			if len(c) == 2 {
				twoLevel = true
			}
		}
		if !twoLevel {
			for _, c := range cells {
				guard = append(guard, Neq(r, c[0]))
			}
			goal := Forall([]*Term{r}, Implies(And(guard...), Eq(Select(cur, r), Select(old, r))))
			x.oblige(s, kind, name+tag, goal, "only the listed cells of "+name+" may change", x.c.Pos)
			continue
		}
		// two-level (map cells): forall r,k: !(r==m && k==key) ==> cur[r][k]==old[r][k]
		k2s, _, _ := isArraySort(v)
		kk := V("k?", k2s)
		for _, c := range cells {
			if len(c) == 2 {
				guard = append(guard, Not(And(Eq(r, c[0]), Eq(kk, c[1]))))
			} else {
				guard = append(guard, Neq(r, c[0]))
			}
		}
		goal := Forall([]*Term{r, kk}, Implies(And(guard...), Eq(Select(Select(cur, r), kk), Select(Select(old, r), kk))))
		x.oblige(s, kind, name+tag, goal, "only the listed cells of "+name+" may change", x.c.Pos)
	}
}

// ---------------------------------------------------------------------------
// loops

func (x *Exec) loopOrdinal() string {
	parts := make([]string, len(x.loopPath))
	for i, p := range x.loopPath {
		parts[i] = fmt.Sprint(p)
	}
	return strings.Join(parts, ".")
}

// computeLoopOrdinals assigns every loop its ordinal by source order and nesting ("1", "1.1", "2", ...).
func (x *Exec) computeLoopOrdinals() {
	x.loopOrd = map[ast.Node]string{}
	var walk func(n ast.Node, prefix string)
	walk = func(n ast.Node, prefix string) {
		count := 0
		var visit func(m ast.Node) bool
		visit = func(m ast.Node) bool {
			if m == nil {
				return true
			}
			if _, ok := m.(*ast.FuncLit); ok {
				return false
			}
			switch l := m.(type) {
			case *ast.ForStmt, *ast.RangeStmt:
				if m == n {
					return true
				}
				count++
				ord := fmt.Sprint(count)
				if prefix != "" {
					ord = prefix + "." + ord
				}
				x.loopOrd[l] = ord
				walk(l, ord)
				return false
			}
			return true
		}
		switch l := n.(type) {
		case *ast.ForStmt:
			ast.Inspect(l.Body, visit)
		case *ast.RangeStmt:
			ast.Inspect(l.Body, visit)
		default:
			ast.Inspect(n, visit)
		}
	}
	walk(x.fi.Body, "")
}

func (x *Exec) enterLoopNode(n ast.Node) string {
	ord := x.loopOrd[n]
	var path []int
	for _, p := range strings.Split(ord, ".") {
		v := 0
		fmt.Sscan(p, &v)
		path = append(path, v)
	}
	x.loopStack = append(x.loopStack, x.loopPath)
	x.loopPath = path
	return ord
}

func (x *Exec) leaveLoopNode() {
	x.loopPath = x.loopStack[len(x.loopStack)-1]
	x.loopStack = x.loopStack[:len(x.loopStack)-1]
}

func (x *Exec) enterLoop() string {
	depth := len(x.loopPath)
	for len(x.loopCount) <= depth {
		x.loopCount = append(x.loopCount, 0)
	}
	x.loopCount[depth]++
	// reset deeper counters
	for i := depth + 1; i < len(x.loopCount); i++ {
		x.loopCount[i] = 0
	}
	x.loopPath = append(x.loopPath, x.loopCount[depth])
	return x.loopOrdinal()
}

func (x *Exec) leaveLoop() {
	depth := len(x.loopPath)
	x.loopPath = x.loopPath[:depth-1]
	for i := depth; i < len(x.loopCount); i++ {
		x.loopCount[i] = 0
	}
}

// assignedLocals collects local variables assigned within node n (declared outside it).
func (x *Exec) assignedLocals(n ast.Node) []*types.Var {
	seen := map[*types.Var]bool{}
	var out []*types.Var
	add := func(e ast.Expr) {
		for {
			switch t := e.(type) {
			case *ast.ParenExpr:
				e = t.X
				continue
			case *ast.IndexExpr:
				// element assignment to a slice variable modifies the variable (value model)
				if _, isMap := x.info.TypeOf(t.X).Underlying().(*types.Map); isMap {
					return
				}
				e = t.X
				continue
			case *ast.SelectorExpr:
				// value struct field update modifies the variable
				if sel := x.info.Selections[t]; sel != nil {
					if _, isPtr := x.info.TypeOf(t.X).Underlying().(*types.Pointer); !isPtr && !x.isHeapStructType(x.info.TypeOf(t.X)) {
						e = t.X
						continue
					}
				}
				return
			}
			break
		}
		id, ok := e.(*ast.Ident)
		if !ok {
			return
		}
		v, ok := x.info.Uses[id].(*types.Var)
		if !ok {
			return
		}
		if v.Parent() == v.Pkg().Scope() {
			return
		}
		if v.Pos() >= n.Pos() && v.Pos() <= n.End() {
			// declared inside the loop: per-iteration variable — unless it is declared by the Init statement of a
			// three-clause for loop, in which case it lives across iterations and must be havocked
			if fs, ok := n.(*ast.ForStmt); !ok || fs.Init == nil || !(v.Pos() >= fs.Init.Pos() && v.Pos() <= fs.Init.End()) {
				return
			}
		}
		if !seen[v] {
			seen[v] = true
			out = append(out, v)
		}
	}
	ast.Inspect(n, func(m ast.Node) bool {
		switch s := m.(type) {
		case *ast.FuncLit:
			return false
		case *ast.AssignStmt:
			for _, l := range s.Lhs {
				add(l)
			}
		case *ast.IncDecStmt:
			add(s.X)
		case *ast.RangeStmt:
			if s.Tok == token.ASSIGN {
				if s.Key != nil {
					add(s.Key)
				}
				if s.Value != nil {
					add(s.Value)
				}
			}
		}
		return true
	})
	sort.Slice(out, func(i, j int) bool { return out[i].Pos() < out[j].Pos() })
	return out
}

type loopCtx struct {
	keyVar *types.Var // key variable of a range loop: reads as $idx at the loop head (invariants written for the index-loop form)
	indVarMonotone bool
	indVar *types.Var // canonical three-clause loop: its induction variable is what $idx denotes
	ord    string
	spec   *LoopSpec
	pos    token.Pos
	pseudo map[string]*Term
}

// checkInvariants asserts all invariants of the loop in state s.
func (x *Exec) checkInvariants(s *State, entry *State, lc *loopCtx, phase string) {
	if lc.spec == nil {
		return
	}
	if x.aliasHook != nil {
		x.aliasHook(s)
	}
	env := x.envFor(s, entry, lc.pos)
	for k, v := range lc.pseudo {
		env.bound[k] = v
	}
	for k, v := range s.pseudo {
		env.bound[k] = v
	}
	for i, inv := range lc.spec.Invariants {
		label := inv.Label
		if label == "" {
			label = fmt.Sprintf("%d", i+1)
		}
		goal := x.trInvariant(inv, env)
		x.obligeSplit(s, "loop"+lc.ord+"."+phase, label, goal, inv.Text, inv.Pos)
	}
}

func (x *Exec) assumeInvariants(s *State, entry *State, lc *loopCtx) {
	if lc.spec == nil {
		return
	}
	if x.aliasHook != nil {
		x.aliasHook(s)
	}
	env := x.envFor(s, entry, lc.pos)
	for k, v := range lc.pseudo {
		env.bound[k] = v
	}
	for k, v := range s.pseudo {
		env.bound[k] = v
	}
	for _, inv := range lc.spec.Invariants {
		t := x.trInvariant(inv, env)
		if x.c != nil && x.c.Isolate[inv.Label] != 0 {
			x.tagHyps(t, inv.Label)
		}
		s.assume(t)
	}
}

// tagHyps remembers which hypotheses come from an isolated invariant (the conjuncts State.assume will store).
func (x *Exec) tagHyps(t *Term, label string) {
	if t == nil {
		return
	}
	if t.Op == "and" {
		for _, a := range t.Args {
			x.tagHyps(a, label)
		}
		return
	}
	if x.hypLabel == nil {
		x.hypLabel = map[*Term]string{}
	}
	x.hypLabel[t] = label
}

// trInvariant translates a loop invariant. A conjunct that mentions an identifier which is no longer a variable of the
// function (a local removed by a refactoring, and not matched as a rename) is dropped - both where the invariant is
// assumed and where it is checked. Invariants are proof hints: a weaker invariant can only make obligations fail.
func (x *Exec) trInvariant(inv *Clause, env *TrEnv) *Term {
	try := func(e *SExpr) (t *Term, err *unsupported) {
		defer func() {
			if r := recover(); r != nil {
				if us, ok := r.(unsupported); ok {
					err = &us
					return
				}
				panic(r)
			}
		}()
		return x.trBool(e, env), nil
	}
	t, err := try(inv.Expr)
	if err == nil {
		return t
	}
	if !strings.Contains(err.msg, "unknown identifier ") {
		panic(*err)
	}
	var conj []*SExpr
	var flat func(e *SExpr)
	flat = func(e *SExpr) {
		if e.Kind == "binary" && e.Name == "&&" && len(e.Args) == 2 {
			flat(e.Args[0])
			flat(e.Args[1])
			return
		}
		conj = append(conj, e)
	}
	flat(inv.Expr)
	var parts []*Term
	for _, c := range conj {
		ct, cerr := try(c)
		if cerr != nil {
			if !strings.Contains(cerr.msg, "unknown identifier ") {
				panic(*cerr)
			}
			i := strings.Index(cerr.msg, "unknown identifier ")
			x.assumptions[fmt.Sprintf("a conjunct of a loop invariant of %s mentions `%s`, which is no longer a variable of the function: the conjunct is dropped (invariants are proof hints)", x.fi.Name, strings.TrimSpace(cerr.msg[i+len("unknown identifier "):]))] = true
			continue
		}
		parts = append(parts, ct)
	}
	return And(parts...)
}

// runLoop is the generic loop scheme.
//   head(s)      : evaluates the loop condition in state s and returns (condTerm); may bind per-iteration variables via enterBody
//   body         : statements
//   post(s)      : executed after the body (and after continue)
// pseudoHavoc lists pseudo variables ($idx, $visited) that change per iteration.
func (x *Exec) runLoop(s *State, entry *State, node ast.Node, bodyNode ast.Node, pseudoInit map[string]*Term,
	cond func(s *State) *Term, enterBody func(s *State), body []ast.Stmt, post func(s *State), exitAssume func(s *State)) outcomes {

	ord := x.enterLoopNode(node)
	defer x.leaveLoopNode()
	lc := &loopCtx{ord: ord, pos: bodyNode.Pos(), pseudo: map[string]*Term{}, indVar: x.pendingIndVar, keyVar: x.pendingKeyVar}
	x.pendingIndVar = nil
	x.pendingKeyVar = nil
	myLabel := x.pendingLabel
	x.pendingLabel = ""
	if lc.indVar != nil {
		lc.indVarMonotone = true
		ast.Inspect(bodyNode, func(n ast.Node) bool {
			switch t := n.(type) {
			case *ast.AssignStmt:
				for _, l := range t.Lhs {
					if id, ok := l.(*ast.Ident); ok && (x.info.Uses[id] == lc.indVar || x.info.Defs[id] == lc.indVar) {
						lc.indVarMonotone = false
					}
				}
			case *ast.IncDecStmt:
				if id, ok := t.X.(*ast.Ident); ok && x.info.Uses[id] == lc.indVar {
					lc.indVarMonotone = false
				}
			case *ast.UnaryExpr:
				if id, ok := t.X.(*ast.Ident); ok && t.Op == token.AND && x.info.Uses[id] == lc.indVar {
					lc.indVarMonotone = false
				}
			}
			return true
		})
	}
	if x.c.Loops != nil {
		lc.spec = x.c.Loops[ord]
	}
	if lc.spec == nil && !x.suppress {
		x.assumptions["loop "+ord+" of "+x.fi.Name+" has no invariant: everything it modifies is unknown after it"] = true
	}
	ordSuffix := "_" + strings.ReplaceAll(ord, ".", "_")
	for k, v := range pseudoInit {
		s.pseudo[k] = v
	}
	// ordinal-suffixed aliases ($idx_1, $range_1_1) let inner invariants speak about outer loops
	aliases := func(st *State) {
		for _, k := range []string{"$idx", "$range", "$len", "$visited", "$dom", "$key", "$val"} {
			if v, ok := st.pseudo[k]; ok {
				st.pseudo[k+ordSuffix] = v
			}
		}
	}
	aliases(s)
	origCheck := x.aliasHook
	x.aliasHook = aliases
	defer func() { x.aliasHook = origCheck }()
	// 1. invariant holds on entry
	if lc.keyVar != nil {
		if v, ok := s.pseudo["$idx"]; ok {
			s.vars[lc.keyVar] = v
		}
	}
	x.checkInvariants(s, entry, lc, "init")

	locals := x.assignedLocals(node)
	// discover the state variables modified by the body (fixpoint over whole variables)
	modified := map[string]bool{}
	savedObls := x.obls
	savedSuppress := x.suppress
	savedFresh := x.copyFresh()
	savedDefers := len(x.defers)
	savedCounts := append([]int(nil), x.loopCount...)
	savedRet, savedNP, savedNG, savedNB, savedNW := x.nReturn, x.nNoPanic, x.nGuard, x.nBorrow, x.nWFrame
	for iter := 0; iter < 6; iter++ {
		x.suppress = true
		h := x.loopHead(s, entry, lc, locals, modified, pseudoInit)
		h0 := h.snapshotSt()
		c := cond(h)
		b := h.clone()
		b.assume(c)
		if enterBody != nil {
			enterBody(b)
		}
		aliases(b)
		o := x.execBlock(b, body, entry)
		ends := append(o.normal, o.cont...)
		ends = append(ends, o.brk...)
		ends = append(ends, h)
		grew := false
		for _, e := range ends {
			if post != nil {
				// post does not touch state variables in the supported forms
			}
			for name, t := range e.st {
				ht, ok := h0[name]
				if !ok {
					ht = x.initSt[name]
				}
				if t != ht && !modified[name] && name != "alloc" {
					modified[name] = true
					grew = true
				}
			}
		}
		x.obls = savedObls
		x.suppress = savedSuppress
		x.restoreFresh(savedFresh)
		x.defers = x.defers[:savedDefers]
		x.loopCount = append([]int(nil), savedCounts...)
		x.nReturn, x.nNoPanic, x.nGuard, x.nBorrow, x.nWFrame = savedRet, savedNP, savedNG, savedNB, savedNW
		if !grew {
			break
		}
	}
	// 2. arbitrary iteration
	h := x.loopHead(s, entry, lc, locals, modified, pseudoInit)
	c := cond(h)
	// exit branch
	exit := h.clone()
	exit.assume(Not(c))
	if exitAssume != nil {
		exitAssume(exit)
	}
	// body branch
	b := h.clone()
	b.assume(c)
	if enterBody != nil {
		enterBody(b)
	}
	aliases(b)
	if !x.suppress && lc.spec != nil {
		// vacuity of the loop contract: invariant and loop condition together must be satisfiable on some path that
		// reaches the loop, otherwise everything proved about the body is empty (only `unsat` is a failure); a loop the
		// contract declares unreachable (`dead loopN`) must be unreachable
		isDead := false
		for _, d := range x.c.Dead {
			if d == "loop"+ord {
				isDead = true
			}
		}
		if isDead {
			x.oblige(b, "dead", "loop"+ord, False, "this loop is declared unreachable under the contract", x.c.Pos)
		} else {
			if x.loopCoverPCs == nil {
				x.loopCoverPCs = map[string][]*Term{}
				x.loopCoverPos = map[string]string{}
			}
			x.loopCoverPCs[ord] = append(x.loopCoverPCs[ord], And(b.pc...))
			x.loopCoverPos[ord] = fmt.Sprintf("%s:%d", x.fi.File, x.u.Fset.Position(bodyNode.Pos()).Line)
		}
	}
	o := x.execBlock(b, body, entry)
	// labelled branches that target an enclosing statement pass through this loop
	mineCont, otherCont := splitByLabel(o.cont, myLabel)
	mineBrk, otherBrk := splitByLabel(o.brk, myLabel)
	o.cont, o.brk = mineCont, mineBrk
	ends := x.merge(append(o.normal, o.cont...))
	for _, e := range ends {
		if post != nil {
			post(e)
		}
		if lc.indVar != nil {
			if cur, ok := e.vars[lc.indVar]; ok {
				e.pseudo["$idx"] = cur
				if k := "$idx" + ordSuffix; true {
					e.pseudo[k] = cur
				}
			}
		}
		if lc.keyVar != nil {
			if v, ok := e.pseudo["$idx"]; ok {
				e.vars[lc.keyVar] = v
			}
		}
		x.checkInvariants(e, entry, lc, "pres")
	}
	res := outcomes{}
	after := append([]*State{exit}, o.brk...)
	for _, a := range append(append(append([]*State(nil), after...), otherBrk...), otherCont...) {
		np := map[string]*Term{}
		for k, v := range s.pseudo {
			if strings.Contains(k, "_") && !strings.HasSuffix(k, ordSuffix) {
				np[k] = v
			}
		}
		a.pseudo = np
		x.restoreInnermostAliases(a)
	}
	res.normal = x.merge(after)
	res.brk, res.cont = otherBrk, otherCont
	return res
}

// splitByLabel separates the states that leave through an unlabelled branch or one labelled with this statement's own
// label (their label is cleared) from those that target an enclosing statement.
func splitByLabel(sts []*State, my string) (mine, other []*State) {
	for _, st := range sts {
		if st.label == "" || st.label == my {
			st.label = ""
			mine = append(mine, st)
		} else {
			other = append(other, st)
		}
	}
	return
}

// restoreInnermostAliases re-creates the unsuffixed pseudo variables from the innermost enclosing loop.
func (x *Exec) restoreInnermostAliases(st *State) {
	if len(x.loopPath) <= 1 {
		return
	}
	parts := make([]string, len(x.loopPath)-1)
	for i, p := range x.loopPath[:len(x.loopPath)-1] {
		parts[i] = fmt.Sprint(p)
	}
	suffix := "_" + strings.Join(parts, "_")
	for k, v := range st.pseudo {
		if strings.HasSuffix(k, suffix) {
			base := strings.TrimSuffix(k, suffix)
			if !strings.Contains(base, "_") {
				st.pseudo[base] = v
			}
		}
	}
}

func (x *Exec) copyFresh() map[string]int {
	m := make(map[string]int, len(x.nfresh))
	for k, v := range x.nfresh {
		m[k] = v
	}
	return m
}
func (x *Exec) restoreFresh(m map[string]int) { x.nfresh = m }

// loopHead builds the state of an arbitrary iteration: havoc + invariant.
func (x *Exec) loopHead(s *State, entry *State, lc *loopCtx, locals []*types.Var, modified map[string]bool, pseudoInit map[string]*Term) *State {
	h := s.clone()
	for _, v := range locals {
		cur, ok := h.vars[v]
		if !ok {
			continue
		}
		if x.boxed[v] {
			continue // lives in the heap; covered by modified state variables
		}
		if x.isHeapStructType(v.Type()) {
			continue // reference stays; fields are state
		}
		nv := x.fresh("l."+v.Name(), cur.Sort)
		nv.GoType = cur.GoType
		h.vars[v] = nv
		x.assumeWellTyped(h, nv, v.Type())
	}
	for _, name := range sortedKeys(modified) {
		cur := x.getStAny(h, name)
		x.setSt(h, name, x.fresh("l."+name, cur.Sort))
	}
	for k, v := range pseudoInit {
		h.pseudo[k] = x.fresh("l"+k, v.Sort)
	}
	if lc.indVar != nil {
		if cur, ok := h.vars[lc.indVar]; ok {
			h.pseudo["$idx"] = cur
			if lc.indVarMonotone {
				h.assume(Le(Num(0), cur)) // starts at 0 and is only incremented by the post statement
			}
		}
		if r, ok := pseudoInit["$range"]; ok {
			h.pseudo["$range"] = r // the ranged expression is not modified by the loops of this code base
		}
	}
	if lc.keyVar != nil {
		if v, ok := h.pseudo["$idx"]; ok {
			h.vars[lc.keyVar] = v
		}
	}
	x.assumeInvariants(h, entry, lc)
	return h
}

func (x *Exec) execFor(s *State, st *ast.ForStmt, entry *State) outcomes {
	if st.Init != nil {
		o := x.execStmt(s, st.Init, entry)
		s = o.normal[0]
	}
	cond := func(h *State) *Term {
		if st.Cond == nil {
			return True
		}
		return x.eval(h, st.Cond)
	}
	var post func(*State)
	if st.Post != nil {
		post = func(e *State) {
			x.execStmt(e, st.Post, entry)
		}
	}
	// canonical counting loop `for i := 0; i < E; i++`: $idx denotes i (and $range the slice X when E is len(X)), so that
	// invariants written for a range loop still apply after the loop was rewritten in this form, and vice versa
	var pseudoInit map[string]*Term
	if as, ok := st.Init.(*ast.AssignStmt); ok && as.Tok == token.DEFINE && len(as.Lhs) == 1 && len(as.Rhs) == 1 {
		if id, ok := as.Lhs[0].(*ast.Ident); ok {
			if lit, ok := as.Rhs[0].(*ast.BasicLit); ok && lit.Value == "0" {
				if inc, ok := st.Post.(*ast.IncDecStmt); ok && inc.Tok == token.INC {
					if pid, ok := inc.X.(*ast.Ident); ok && pid.Name == id.Name {
						if be, ok := st.Cond.(*ast.BinaryExpr); ok && be.Op == token.LSS {
							if cid, ok := be.X.(*ast.Ident); ok && cid.Name == id.Name {
								if iv, ok := x.info.Defs[id].(*types.Var); ok {
									pseudoInit = map[string]*Term{"$idx": Num(0)}
									x.pendingIndVar = iv
									if call, ok := be.Y.(*ast.CallExpr); ok && len(call.Args) == 1 {
										if fn, ok := call.Fun.(*ast.Ident); ok && fn.Name == "len" {
											switch call.Args[0].(type) {
											case *ast.Ident, *ast.SelectorExpr:
												if rt := x.eval(s, call.Args[0]); isSliceSort(rt.Sort) {
													pseudoInit["$range"] = rt
												}
											}
										}
									}
								}
							}
						}
					}
				}
			}
		}
	}
	return x.runLoop(s, entry, st, st.Body, pseudoInit, cond, nil, st.Body.List, post, nil)
}

func (x *Exec) execRange(s *State, st *ast.RangeStmt, entry *State) outcomes {
	ct := x.info.TypeOf(st.X)
	setVar := func(b *State, e ast.Expr, val *Term) {
		if e == nil {
			return
		}
		id, ok := e.(*ast.Ident)
		if !ok {
			x.fail(e, "range variable must be an identifier")
		}
		if id.Name == "_" {
			return
		}
		if st.Tok == token.DEFINE {
			x.define(b, id, val)
		} else {
			x.assignTo(b, id, val)
		}
	}
	if id, ok := st.Key.(*ast.Ident); ok && id.Name != "_" && st.Tok == token.DEFINE {
		if _, isSlice := ct.Underlying().(*types.Slice); isSlice {
			if v, ok := x.info.Defs[id].(*types.Var); ok {
				x.pendingKeyVar = v
			}
		}
	}
	switch ut := ct.Underlying().(type) {
	case *types.Slice:
		sl := x.eval(s, st.X)
		if sl.Sort == SStr {
			// range over a byte slice (modelled by its content): index and byte
			cond := func(h *State) *Term { return Lt(h.pseudo["$idx"], mk("s.len", SInt, sl)) }
			enter := func(b *State) {
				i := b.pseudo["$idx"]
				b.assume(Le(Num(0), i))
				setVar(b, st.Key, i)
				if st.Value != nil {
					setVar(b, st.Value, withType(mk("s.byte", SInt, sl, i), ut.Elem()))
				}
			}
			post := func(e *State) { e.pseudo["$idx"] = Add(e.pseudo["$idx"], Num(1)) }
			s.pseudo["$len"] = mk("s.len", SInt, sl)
			return x.runLoop(s, entry, st, st.Body, map[string]*Term{"$idx": Num(0)}, cond, enter, st.Body.List, post, nil)
		}
		idx0 := Num(0)
		cond := func(h *State) *Term { return Lt(h.pseudo["$idx"], sliceLen(sl)) }
		enter := func(b *State) {
			i := b.pseudo["$idx"]
			b.assume(Le(Num(0), i))
			setVar(b, st.Key, i)
			elem := Select(x.u.sliceArr(sl), i)
			elem = withType(elem, ut.Elem())
			if st.Value != nil {
				setVar(b, st.Value, elem)
			}
			b.pseudo["$val"] = elem
		}
		post := func(e *State) { e.pseudo["$idx"] = Add(e.pseudo["$idx"], Num(1)) }
		s.pseudo["$len"] = sliceLen(sl)
		s.pseudo["$range"] = sl
		return x.runLoop(s, entry, st, st.Body, map[string]*Term{"$idx": idx0}, cond, enter, st.Body.List, post, nil)
	case *types.Map:
		m := x.eval(s, st.X)
		dn, _, ks, _ := x.u.mapVars(ut)
		empty := &Term{Op: "const-array", Sort: arraySort(ks, SBool), Args: []*Term{False}}
		// domain at loop entry (Go: entries removed during iteration are not produced; we require the ranged map
		// not to be modified by the body — checked syntactically by the caller's contract review; recorded)
		dom0 := Select(x.getSt(s, dn, arraySort(SRef, arraySort(ks, SBool))), m)
		isNil := Eq(m, V("null", SRef))
		var keyTerm *Term
		cond := func(h *State) *Term {
			keyTerm = x.fresh("rk", ks)
			vis := h.pseudo["$visited"]
			return And(Not(isNil), Select(dom0, keyTerm), Not(Select(vis, keyTerm)))
		}
		enter := func(b *State) {
			setVar(b, st.Key, withType(keyTerm, ut.Key()))
			b.pseudo["$key"] = keyTerm
			if st.Value != nil {
				v, _ := x.mapLoad(b, ut, m, keyTerm)
				setVar(b, st.Value, v)
			}
		}
		post := func(e *State) {
			e.pseudo["$visited"] = Store(e.pseudo["$visited"], e.pseudo["$key"], True)
		}
		exitAssume := func(e *State) {
			// loop exits when every key has been visited
			k := V("k?", ks)
			e.pc = e.pc[:len(e.pc)-1] // drop the negated condition on the arbitrary key
			e.assume(Forall([]*Term{k}, Implies(And(Not(isNil), Select(dom0, k)), Select(e.pseudo["$visited"], k))))
		}
		x.assumptions["range over a map in "+x.fi.Name+": the ranged map is assumed not to be modified by the loop body"] = true
		s.pseudo["$dom"] = dom0
		return x.runLoop(s, entry, st, st.Body, map[string]*Term{"$visited": empty}, cond, enter, st.Body.List, post, exitAssume)
	}
	x.fail(st, "unsupported range over %s", ct)
	return outcomes{}
}

func (x *Exec) execSwitch(s *State, st *ast.SwitchStmt, entry *State) outcomes {
	myLabel := x.pendingLabel
	x.pendingLabel = ""
	if st.Init != nil {
		o := x.execStmt(s, st.Init, entry)
		s = o.normal[0]
	}
	var tag *Term
	if st.Tag != nil {
		tag = x.eval(s, st.Tag)
	}
	var res outcomes
	cur := s
	var deflt *ast.CaseClause
	var notPrev []*Term
	for _, cc := range st.Body.List {
		c := cc.(*ast.CaseClause)
		if c.List == nil {
			deflt = c
			continue
		}
		var conds []*Term
		for _, e := range c.List {
			v := x.eval(cur, e)
			if tag != nil {
				conds = append(conds, Eq(tag, v))
			} else {
				conds = append(conds, v)
			}
		}
		cond := Or(conds...)
		b := cur.clone()
		for _, n := range notPrev {
			b.assume(n)
		}
		b.assume(cond)
		o := x.execBlock(b, c.Body, entry)
		res.normal = append(res.normal, o.normal...)
		mineB, otherB := splitByLabel(o.brk, myLabel)
		res.normal = append(res.normal, mineB...) // break leaves the switch
		res.brk = append(res.brk, otherB...)
		res.cont = append(res.cont, o.cont...)
		notPrev = append(notPrev, Not(cond))
	}
	d := cur.clone()
	for _, n := range notPrev {
		d.assume(n)
	}
	if deflt != nil {
		o := x.execBlock(d, deflt.Body, entry)
		res.normal = append(res.normal, o.normal...)
		mineB, otherB := splitByLabel(o.brk, myLabel)
		res.normal = append(res.normal, mineB...)
		res.brk = append(res.brk, otherB...)
		res.cont = append(res.cont, o.cont...)
	} else {
		res.normal = append(res.normal, d)
	}
	res.normal = x.merge(res.normal)
	return res
}

func (x *Exec) execTypeSwitch(s *State, st *ast.TypeSwitchStmt, entry *State) outcomes {
	myLabel := x.pendingLabel
	x.pendingLabel = ""
	if st.Init != nil {
		o := x.execStmt(s, st.Init, entry)
		s = o.normal[0]
	}
	var subject ast.Expr
	var bindName *ast.Ident
	x.loweredSet[st.Assign.Pos()] = true
	switch a := st.Assign.(type) {
	case *ast.AssignStmt:
		bindName = a.Lhs[0].(*ast.Ident)
		subject = a.Rhs[0].(*ast.TypeAssertExpr).X
	case *ast.ExprStmt:
		subject = a.X.(*ast.TypeAssertExpr).X
	}
	val := x.eval(s, subject)
	if val.Sort != SAny {
		x.fail(st, "type switch on non-empty interface")
	}
	dt := mk("dyntype", SType, val)
	var res outcomes
	var notPrev []*Term
	var deflt *ast.CaseClause
	for _, cc := range st.Body.List {
		c := cc.(*ast.CaseClause)
		if c.List == nil {
			deflt = c
			continue
		}
		var conds []*Term
		var caseType types.Type
		for _, e := range c.List {
			t := x.info.TypeOf(e)
			caseType = t
			if b, ok := t.(*types.Basic); ok && b.Kind() == types.UntypedNil {
				conds = append(conds, Eq(val, V("any_nil", SAny)))
				continue
			}
			conds = append(conds, Eq(dt, x.typeConst(t)))
		}
		cond := Or(conds...)
		b := s.clone()
		for _, n := range notPrev {
			b.assume(n)
		}
		b.assume(cond)
		if bindName != nil {
			if obj := x.info.Implicits[c]; obj != nil {
				var bv *Term
				if len(c.List) == 1 {
					bv = x.unbox(val, caseType)
					if isByteSlice(caseType) {
						x.setAlias(bv, True) // the dynamic value of an interface received from the caller is the caller's slice
					}
				} else {
					bv = val
				}
				b.vars[obj] = withType(bv, obj.Type())
			}
		}
		o := x.execBlock(b, c.Body, entry)
		res.normal = append(res.normal, o.normal...)
		mineB, otherB := splitByLabel(o.brk, myLabel)
		res.normal = append(res.normal, mineB...)
		res.brk = append(res.brk, otherB...)
		res.cont = append(res.cont, o.cont...)
		notPrev = append(notPrev, Not(cond))
	}
	d := s.clone()
	for _, n := range notPrev {
		d.assume(n)
	}
	if deflt != nil {
		if bindName != nil {
			if obj := x.info.Implicits[deflt]; obj != nil {
				d.vars[obj] = withType(val, obj.Type())
			}
		}
		o := x.execBlock(d, deflt.Body, entry)
		res.normal = append(res.normal, o.normal...)
		mineB, otherB := splitByLabel(o.brk, myLabel)
		res.normal = append(res.normal, mineB...)
		res.brk = append(res.brk, otherB...)
		res.cont = append(res.cont, o.cont...)
	} else {
		res.normal = append(res.normal, d)
	}
	res.normal = x.merge(res.normal)
	return res
}

func (x *Exec) typeConst(t types.Type) *Term {
	name := "T." + mangle(types.TypeString(t, func(p *types.Package) string { return pkgShort(p) }))
	x.u.typeConsts[name] = true
	return V(name, SType)
}

func (x *Exec) unbox(a *Term, t types.Type) *Term {
	srt := x.u.sortOf(t)
	if srt == SAny {
		return a
	}
	r := mk("unbox_"+mangle(srt), srt, a)
	r.GoType = t
	return r
}

func (x *Exec) box(v *Term, t types.Type) *Term {
	if v.Sort == SAny {
		return v
	}
	r := mk("box_"+mangle(v.Sort), SAny, v)
	return r
}

// ---------------------------------------------------------------------------
// ownership of byte slices (DESIGN 3.5): []byte values are modelled by their contents; whether a value may share
// its backing array with data owned by the caller of the function under verification is tracked on the side.

func isByteSlice(t types.Type) bool {
	if t == nil {
		return false
	}
	sl, ok := types.Unalias(t).Underlying().(*types.Slice)
	if !ok {
		return false
	}
	b, ok := types.Unalias(sl.Elem()).Underlying().(*types.Basic)
	return ok && (b.Kind() == types.Byte || b.Kind() == types.Uint8)
}

func (x *Exec) setAlias(t *Term, a *Term) {
	if x.alias == nil {
		x.alias = map[string]*Term{}
	}
	x.alias[t.String()] = a
}

func (x *Exec) getAlias(t *Term) *Term {
	if a, ok := x.alias[t.String()]; ok {
		return a
	}
	// unknown provenance: may be shared
	a := x.fresh("al.unknown", SBool)
	x.setAlias(t, a)
	return a
}

// freshBytes returns a term equal to v that denotes a newly allocated byte slice.
func (x *Exec) freshBytes(s *State, v *Term, ty types.Type) *Term {
	c := x.fresh("bytes", SStr)
	c.GoType = ty
	s.pc = append(s.pc, Eq(c, v))
	x.setAlias(c, False)
	return c
}
