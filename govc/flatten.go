package main

import "fmt"

// Hypothesis flattening: nested universal quantifiers in positive positions are pulled to the front (after
// unfolding defined specification functions whose bodies contain quantifiers), and conjunctions under a
// quantifier are split into separate quantified facts. The transformation preserves logical equivalence; it only
// gives E-matching direct triggers (the solvers' own nested-quantifier handling proved slow and unstable).

type flattener struct {
	p    *Prelude
	mode string
	n    int
}

func (f *flattener) freshVar(v *Term) *Term {
	f.n++
	return V(fmt.Sprintf("%s@%d", v.Op, f.n), v.Sort)
}

func hasQuant(t *Term) bool {
	if t.Op == "forall" || t.Op == "exists" {
		return true
	}
	for _, a := range t.Args {
		if hasQuant(a) {
			return true
		}
	}
	return false
}

// alphaRename gives every bound variable of t a fresh name.
func (f *flattener) alphaRename(t *Term) *Term {
	if len(t.Bind) > 0 && (t.Op == "forall" || t.Op == "exists") {
		m := map[string]*Term{}
		nb := make([]*Term, len(t.Bind))
		for i, b := range t.Bind {
			nv := f.freshVar(b)
			m[b.Op] = nv
			nb[i] = nv
		}
		body := f.alphaRename(subst(t.Args[0], m))
		nt := &Term{Op: t.Op, Sort: t.Sort, Bind: nb, Args: []*Term{body}}
		for _, pat := range t.Pats {
			var np []*Term
			for _, e := range pat {
				np = append(np, subst(e, m))
			}
			nt.Pats = append(nt.Pats, np)
		}
		return nt
	}
	if len(t.Args) == 0 {
		return t
	}
	changed := false
	args := make([]*Term, len(t.Args))
	for i, a := range t.Args {
		args[i] = f.alphaRename(a)
		if args[i] != a {
			changed = true
		}
	}
	if !changed {
		return t
	}
	nt := *t
	nt.Args = args
	return &nt
}

// unfold replaces applications of defined spec functions whose bodies contain quantifiers by their bodies.
func (f *flattener) unfold(t *Term, depth int) *Term {
	if depth > 6 {
		return t
	}
	if sf, ok := f.p.u.Specs.Funs[t.Op]; ok && sf.Body != nil && modeOK(sf.Mode, f.mode) && len(t.Args) == len(sf.Params) {
		if body, ok := f.p.funBody[t.Op]; ok && f.bodyHasQuant(t.Op, 0) {
			m := map[string]*Term{}
			for i, pn := range sf.Params {
				m[pn] = f.unfold(t.Args[i], depth+1)
			}
			return f.unfold(subst(f.alphaRename(body), m), depth+1)
		}
	}
	if len(t.Args) == 0 {
		return t
	}
	changed := false
	args := make([]*Term, len(t.Args))
	for i, a := range t.Args {
		args[i] = f.unfold(a, depth)
		if args[i] != a {
			changed = true
		}
	}
	if !changed {
		return t
	}
	nt := *t
	nt.Args = args
	return &nt
}

// bodyHasQuant: the (transitively unfolded) body of a defined spec function contains a quantifier.
func (f *flattener) bodyHasQuant(name string, depth int) bool {
	body, ok := f.p.funBody[name]
	if !ok || depth > 6 {
		return false
	}
	if hasQuant(body) {
		return true
	}
	found := false
	body.walk(func(t *Term) {
		if found {
			return
		}
		if sf, ok := f.p.u.Specs.Funs[t.Op]; ok && sf.Body != nil && t.Op != name && modeOK(sf.Mode, f.mode) {
			if f.bodyHasQuant(t.Op, depth+1) {
				found = true
			}
		}
	})
	return found
}

type piece struct {
	vars   []*Term
	guards []*Term
	concl  *Term
}

// decompose splits a formula in positive position into quantified implications.
func (f *flattener) decompose(t *Term, vars, guards []*Term, out *[]piece) {
	switch {
	case t.Op == "and":
		for _, a := range t.Args {
			f.decompose(a, vars, guards, out)
		}
		return
	case t.Op == "=>" && len(t.Args) == 2:
		f.decompose(t.Args[1], vars, append(append([]*Term(nil), guards...), t.Args[0]), out)
		return
	case t.Op == "forall":
		// bound variables were alpha-renamed by the caller, so they can simply be appended
		f.decompose(t.Args[0], append(append([]*Term(nil), vars...), t.Bind...), guards, out)
		return
	case t.Op == "ite" && t.Sort == SBool && len(t.Args) == 3:
		f.decompose(t.Args[1], vars, append(append([]*Term(nil), guards...), t.Args[0]), out)
		f.decompose(t.Args[2], vars, append(append([]*Term(nil), guards...), Not(t.Args[0])), out)
		return
	}
	*out = append(*out, piece{vars, guards, t})
}

// nestedForallPositive: a forall occurs inside the body of a forall, in positive position.
func nestedForallPositive(t *Term, inForall bool) bool {
	switch t.Op {
	case "forall":
		if inForall {
			return true
		}
		return nestedForallPositive(t.Args[0], true)
	case "and":
		for _, a := range t.Args {
			if nestedForallPositive(a, inForall) {
				return true
			}
		}
		return false
	case "=>":
		return nestedForallPositive(t.Args[1], inForall)
	case "ite":
		if t.Sort == SBool {
			return nestedForallPositive(t.Args[1], inForall) || nestedForallPositive(t.Args[2], inForall)
		}
	}
	return false
}

// flattenHyp returns an equivalent list of hypotheses for h.
func (f *flattener) flattenHyp(h *Term) []*Term {
	u := f.unfold(h, 0)
	if !nestedForallPositive(u, false) {
		if u == h {
			return []*Term{h}
		}
		// unfolding alone does not help the solver; keep the original (smaller) form
		return []*Term{h}
	}
	u = f.alphaRename(u)
	var ps []piece
	f.decompose(u, nil, nil, &ps)
	var out []*Term
	for _, p := range ps {
		body := Implies(And(p.guards...), p.concl)
		if len(p.vars) == 0 {
			out = append(out, body)
			continue
		}
		// keep only the variables that occur
		occ := map[string]string{}
		freeConsts(body, map[string]bool{}, occ)
		var vs []*Term
		for _, v := range p.vars {
			if _, ok := occ[v.Op]; ok {
				vs = append(vs, v)
			}
		}
		if len(vs) == 0 {
			out = append(out, body)
			continue
		}
		out = append(out, Forall(vs, body))
	}
	return out
}
