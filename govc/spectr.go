package main

import (
	"os"
	"fmt"
	"go/constant"
	"go/token"
	"go/types"
	"strings"
)

// TrEnv is the environment for translating specification expressions to terms.
type TrEnv struct {
	x     *Exec
	st    *State
	old   *TrEnv
	bound map[string]*Term
	lets  map[string]*Term
	macros map[string]*SExpr
	pkg   *types.Package
	pos   token.Pos // scope position for resolving locals (NoPos: parameters only)
	inPat bool      // translating a trigger: use the raw select terms
	isEntry bool
}

func (x *Exec) assumeGlobalAxioms(s *State) {}

// envFor builds the environment of the function under verification.
func (x *Exec) envFor(s *State, entry *State, pos token.Pos) *TrEnv {
	oldEnv := &TrEnv{x: x, st: entry, bound: map[string]*Term{}, lets: map[string]*Term{}, pkg: x.fi.Pkg.Types, pos: token.NoPos, isEntry: true, macros: contractMacros(x.c)}
	oldEnv.old = oldEnv
	env := &TrEnv{x: x, st: s, old: oldEnv, bound: map[string]*Term{}, lets: map[string]*Term{}, pkg: x.fi.Pkg.Types, pos: pos, macros: oldEnv.macros}
	if s == entry {
		env.isEntry = true
	}
	oldEnv.lets = env.lets
	return env
}

func contractMacros(c *Contract) map[string]*SExpr {
	m := map[string]*SExpr{}
	if c != nil {
		for _, l := range c.Lets {
			m[l.Name] = l.Expr
		}
	}
	return m
}

func (e *TrEnv) child() *TrEnv {
	n := *e
	n.bound = make(map[string]*Term, len(e.bound)+2)
	for k, v := range e.bound {
		n.bound[k] = v
	}
	if e.old == e {
		n.old = &n
	}
	return &n
}

func specErr(e *SExpr, format string, args ...any) {
	panic(unsupported{fmt.Sprintf("spec %s: %s", e.Pos, fmt.Sprintf(format, args...))})
}

func (x *Exec) trBool(e *SExpr, env *TrEnv) *Term {
	t, err := x.tryTrBool(e, env)
	if err == nil {
		return t
	}
	// A local variable that the contract mentions may have been renamed in the code. Loop invariants and lets are proof
	// hints: matching the unknown name to a local of the function is sound whatever the choice (a wrong choice can only
	// make obligations fail). It is done only when exactly one local in scope, not mentioned anywhere in the contract,
	// makes the clause well sorted.
	msg := err.msg
	i := strings.Index(msg, "unknown identifier ")
	if i < 0 || x.fi == nil || x.c == nil || env.pos == token.NoPos {
		if os.Getenv("GOVC_DBG") != "" {
			fmt.Fprintf(os.Stderr, "DBG no retry: %s pos=%v\n", msg, env.pos)
		}
		panic(*err)
	}
	name := strings.TrimSpace(msg[i+len("unknown identifier "):])
	if x.identAlias == nil {
		x.identAlias = map[string]*types.Var{}
	}
	if _, done := x.identAlias[name]; done {
		panic(*err)
	}
	var okCands []*types.Var
	var okTerm *Term
	for _, cand := range x.renameCandidates(env.pos) {
		x.identAlias[name] = cand
		if t2, err2 := x.tryTrBool(e, env); err2 == nil {
			// the candidate must also fit the `let` macros of the contract that mention the name
			fitsLets := true
			for _, l := range x.c.Lets {
				if sexprMentions(l.Expr, name) {
					if _, err3 := x.tryTrAny(l.Expr, env); err3 != nil && !strings.Contains(err3.msg, "unknown identifier") {
						fitsLets = false
					}
				}
			}
			if fitsLets {
				okCands = append(okCands, cand)
				okTerm = t2
			}
		}
		delete(x.identAlias, name)
	}
	if len(okCands) != 1 {
		if os.Getenv("GOVC_DBG") != "" {
			var ns []string
			for _, c := range okCands {
				ns = append(ns, c.Name()+":"+c.Type().String())
			}
			fmt.Fprintf(os.Stderr, "DBG rename %s at %s: fit %v\n", name, e.Pos, ns)
		}
		panic(*err)
	}
	x.identAlias[name] = okCands[0]
	x.assumptions[fmt.Sprintf("the contract of %s mentions `%s`, which is no longer a variable of the function: matched to the local `%s` (renamed?)", x.fi.Name, name, okCands[0].Name())] = true
	return okTerm
}

func (x *Exec) tryTrBool(e *SExpr, env *TrEnv) (t *Term, err *unsupported) {
	defer func() {
		if r := recover(); r != nil {
			if us, ok := r.(unsupported); ok {
				err = &us
				return
			}
			panic(r)
		}
	}()
	t = x.trExpr(e, env)
	if t.Sort != SBool {
		specErr(e, "expected Bool, got %s", t.Sort)
	}
	return t, nil
}

func (x *Exec) tryTrAny(e *SExpr, env *TrEnv) (t *Term, err *unsupported) {
	defer func() {
		if r := recover(); r != nil {
			if us, ok := r.(unsupported); ok {
				err = &us
				return
			}
			panic(r)
		}
	}()
	return x.trExpr(e, env), nil
}

func sexprMentions(e *SExpr, name string) bool {
	if e == nil {
		return false
	}
	if (e.Kind == "id" || e.Kind == "call") && e.Name == name {
		return true
	}
	for _, a := range e.Args {
		if sexprMentions(a, name) {
			return true
		}
	}
	for _, a := range e.Lo {
		if sexprMentions(a, name) {
			return true
		}
	}
	for _, a := range e.Hi {
		if sexprMentions(a, name) {
			return true
		}
	}
	return false
}

// renameCandidates: the local variables in scope at pos whose names occur nowhere in the contract of the function.
func (x *Exec) renameCandidates(pos token.Pos) []*types.Var {
	mentioned := map[string]bool{}
	var walk func(e *SExpr)
	walk = func(e *SExpr) {
		if e == nil {
			return
		}
		if e.Kind == "id" || e.Kind == "call" {
			mentioned[e.Name] = true
		}
		for _, a := range e.Args {
			walk(a)
		}
		for _, a := range e.Lo {
			walk(a)
		}
		for _, a := range e.Hi {
			walk(a)
		}
		for _, pat := range e.Pats {
			for _, p := range pat {
				walk(p)
			}
		}
	}
	for _, c := range x.c.Requires {
		walk(c.Expr)
	}
	for _, c := range x.c.Ensures {
		walk(c.Expr)
	}
	for _, a := range x.c.Assigns {
		walk(a)
	}
	for _, l := range x.c.Lets {
		walk(l.Expr)
	}
	for _, ls := range x.c.Loops {
		for _, inv := range ls.Invariants {
			walk(inv.Expr)
		}
	}
	var out []*types.Var
	seen := map[*types.Var]bool{}
	scope := x.fi.Pkg.Types.Scope().Innermost(pos)
	for sc := scope; sc != nil && sc != x.fi.Pkg.Types.Scope(); sc = sc.Parent() {
		for _, n := range sc.Names() {
			v, ok := sc.Lookup(n).(*types.Var)
			if !ok || seen[v] || mentioned[n] || n == "_" {
				continue
			}
			if v.Pos() > pos {
				continue // declared later
			}
			seen[v] = true
			out = append(out, v)
		}
	}
	return out
}

// lookupProgramVar resolves a source-level variable name.
func (x *Exec) lookupProgramVar(name string, env *TrEnv) (*Term, bool) {
	if x.fi == nil {
		return nil, false
	}
	var obj types.Object
	if a, ok := x.identAlias[name]; ok {
		obj = a
	}
	if obj == nil && env.pos != token.NoPos && !env.isEntry {
		scope := x.fi.Pkg.Types.Scope().Innermost(env.pos)
		if scope != nil {
			_, obj = scope.LookupParent(name, env.pos)
		}
	}
	if obj == nil {
		// parameters, receiver, captured variables, named results
		for o := range x.entryVars {
			if o.Name() == name {
				obj = o
				break
			}
		}
		if obj == nil {
			for _, rv := range x.resultVars {
				if rv.Name() == name {
					obj = rv
				}
			}
		}
		if obj == nil && x.c != nil && x.fi.Sig != nil {
			// the names in the contract header are positional: a parameter or receiver renamed in the code is still found
			var ps []*types.Var
			if x.fi.Recv != nil {
				ps = append(ps, x.fi.Recv)
			}
			for i := 0; i < x.fi.Sig.Params().Len(); i++ {
				ps = append(ps, x.fi.Sig.Params().At(i))
			}
			if len(ps) == len(x.c.Params) {
				for i, pn := range x.c.Params {
					if pn == name {
						obj = ps[i]
					}
				}
			}
		}
	}
	v, ok := obj.(*types.Var)
	if !ok || v == nil {
		return nil, false
	}
	if v.Pkg() != nil && v.Parent() == v.Pkg().Scope() {
		return nil, false
	}
	if env.isEntry {
		if t, ok := x.entryVars[v]; ok {
			return withType(t, v.Type()), true
		}
		return nil, false
	}
	t, ok := env.st.vars[v]
	if !ok {
		return nil, false
	}
	if x.boxed[v] {
		pv, srt := x.u.ptrVar(v.Type())
		return withType(Select(x.getSt(env.st, pv, arraySort(SRef, srt)), t), v.Type()), true
	}
	return withType(t, v.Type()), true
}

func (x *Exec) lookupGlobal(pkg *types.Package, name string, env *TrEnv) (*Term, bool) {
	if pkg == nil {
		return nil, false
	}
	obj := pkg.Scope().Lookup(name)
	switch o := obj.(type) {
	case *types.Var:
		return x.globalValue(env.st, o), true
	case *types.Const:
		return x.constValTerm(o.Val(), o.Type()), true
	}
	return nil, false
}

func (x *Exec) constValTerm(v constant.Value, t types.Type) *Term {
	switch v.Kind() {
	case constant.Bool:
		if constant.BoolVal(v) {
			return True
		}
		return False
	case constant.String:
		return withType(StrLit(constant.StringVal(v)), t)
	case constant.Int:
		n, _ := constant.Int64Val(v)
		return withType(Num(int(n)), t)
	}
	panic(unsupported{"unsupported constant kind"})
}

func (x *Exec) trExpr(e *SExpr, env *TrEnv) *Term {
	switch e.Kind {
	case "int":
		return Num(e.Int)
	case "str":
		return StrLit(e.Str)
	case "bool":
		if e.Int == 1 {
			return True
		}
		return False
	case "nil":
		return V("null", SRef)
	case "id":
		return x.trIdent(e, env)
	case "old":
		return x.trExpr(e.Args[0], env.old)
	case "unary":
		switch e.Name {
		case "!":
			return Not(x.trBool(e.Args[0], env))
		case "-":
			return mk("-", SInt, x.trExpr(e.Args[0], env))
		case "*":
			p := x.trExpr(e.Args[0], env)
			if p.GoType == nil {
				specErr(e, "dereference of untyped term")
			}
			pt, ok := types.Unalias(p.GoType).Underlying().(*types.Pointer)
			if !ok {
				specErr(e, "dereference of non-pointer %s", p.GoType)
			}
			if x.isHeapStructType(pt.Elem()) {
				return withType(p, pt.Elem())
			}
			pv, srt := x.u.ptrVar(pt.Elem())
			return withType(Select(x.getSt(env.st, pv, arraySort(SRef, srt)), p), pt.Elem())
		}
	case "binary":
		return x.trBinary(e, env)
	case "cond":
		c := x.trBool(e.Args[0], env)
		a := x.trExpr(e.Args[1], env)
		b := x.trExpr(e.Args[2], env)
		a, b = x.unifyNil(a, b)
		if a.Sort != b.Sort {
			specErr(e, "branches of ?: have sorts %s and %s", a.Sort, b.Sort)
		}
		return Ite(c, a, b)
	case "index":
		return x.trIndex(e, env)
	case "slice":
		a := x.trExpr(e.Args[0], env)
		var lo, hi *Term
		if e.Args[1] != nil {
			lo = x.trExpr(e.Args[1], env)
		} else {
			lo = Num(0)
		}
		if a.Sort == SStr {
			if e.Args[2] != nil {
				hi = x.trExpr(e.Args[2], env)
			} else {
				hi = mk("s.len", SInt, a)
			}
			return mk("s.substr", SStr, a, lo, Sub(hi, lo))
		}
		specErr(e, "slice expression on sort %s", a.Sort)
	case "sel":
		return x.trSel(e, env)
	case "call":
		return x.trCall(e, env)
	case "forall", "exists":
		ne := env.child()
		var binds []*Term
		var guards []*Term
		for i, v := range e.Vars {
			srt := e.Sorts[i]
			if srt == "" {
				srt = SInt
			}
			bv := V(v, srt)
			binds = append(binds, bv)
			ne.bound[v] = bv
		}
		for i := range e.Vars {
			if e.Lo[i] != nil {
				bv := binds[i]
				guards = append(guards, Le(x.trExpr(e.Lo[i], ne), bv), Lt(bv, x.trExpr(e.Hi[i], ne)))
			}
		}
		body := x.trBool(e.Args[0], ne)
		var q *Term
		if e.Kind == "forall" {
			q = Forall(binds, Implies(And(guards...), body))
		} else {
			q = Exists(binds, And(append(guards, body)...))
		}
		for _, pat := range e.Pats {
			var p []*Term
			pe2 := ne.child()
			pe2.inPat = true
			for _, pe := range pat {
				p = append(p, x.trExpr(pe, pe2))
			}
			q.Pats = append(q.Pats, p)
		}
		return q
	case "let":
		ne := env.child()
		ne.bound[e.Vars[0]] = x.trExpr(e.Args[0], env)
		return x.trExpr(e.Args[1], ne)
	}
	specErr(e, "unsupported expression kind %s", e.Kind)
	return nil
}

func (x *Exec) trIdent(e *SExpr, env *TrEnv) *Term {
	name := e.Name
	if t, ok := env.bound[name]; ok {
		return t
	}
	if t, ok := env.lets[name]; ok {
		return t
	}
	if m, ok := env.macros[name]; ok {
		return x.trExpr(m, env)
	}
	if t, ok := x.lookupProgramVar(name, env); ok {
		return t
	}
	if t, ok := x.lookupGlobal(env.pkg, name, env); ok {
		return t
	}
	if srt, ok := x.u.ghostSorts[name]; ok {
		return x.getSt(env.st, name, srt)
	}
	switch name {
	case "null":
		return V("null", SRef)
	case "alloc":
		return x.getSt(env.st, "alloc", arraySort(SRef, SBool))
	case "MaxInt":
		return &Term{Op: "9223372036854775807", Sort: SInt}
	}
	if f, ok := x.u.Specs.Funs[name]; ok && len(f.Params) == 0 {
		return V(name, f.Sort)
	}
	if strings.HasPrefix(name, "T.") {
		return V(name, SType)
	}
	specErr(e, "unknown identifier %s", name)
	return nil
}

func (x *Exec) unifyNil(a, b *Term) (*Term, *Term) {
	isNull := func(t *Term) bool { return t.Op == "null" && len(t.Args) == 0 }
	if isNull(a) && b.Sort != SRef {
		return x.u.zero(b.Sort), b
	}
	if isNull(b) && a.Sort != SRef {
		return a, x.u.zero(a.Sort)
	}
	return a, b
}

func (x *Exec) trBinary(e *SExpr, env *TrEnv) *Term {
	switch e.Name {
	case "&&":
		return And(x.trBool(e.Args[0], env), x.trBool(e.Args[1], env))
	case "||":
		return Or(x.trBool(e.Args[0], env), x.trBool(e.Args[1], env))
	case "==>":
		return Implies(x.trBool(e.Args[0], env), x.trBool(e.Args[1], env))
	case "<==>":
		return Eq(x.trBool(e.Args[0], env), x.trBool(e.Args[1], env))
	}
	a := x.trExpr(e.Args[0], env)
	b := x.trExpr(e.Args[1], env)
	switch e.Name {
	case "==", "!=":
		isNull := func(t *Term) bool { return t.Op == "null" && len(t.Args) == 0 }
		if isNull(b) && isSliceSort(a.Sort) {
			r := mk("isnil_"+a.Sort, SBool, a)
			if e.Name == "!=" {
				return Not(r)
			}
			return r
		}
		if isNull(a) && isSliceSort(b.Sort) {
			r := mk("isnil_"+b.Sort, SBool, b)
			if e.Name == "!=" {
				return Not(r)
			}
			return r
		}
		a, b = x.unifyNil(a, b)
		if a.Sort != b.Sort {
			if a.Sort == SAny {
				b = x.box(b, nil)
			} else if b.Sort == SAny {
				a = x.box(a, nil)
			} else {
				specErr(e, "comparison of sorts %s and %s", a.Sort, b.Sort)
			}
		}
		if e.Name == "==" {
			return Eq(a, b)
		}
		return Neq(a, b)
	case "<", "<=", ">", ">=":
		if a.Sort == SStr {
			switch e.Name {
			case "<":
				return mk("s.lt", SBool, a, b)
			case ">":
				return mk("s.lt", SBool, b, a)
			}
		}
		if a.Sort != SInt || b.Sort != SInt {
			specErr(e, "ordering on sorts %s, %s", a.Sort, b.Sort)
		}
		op := e.Name
		return mk(op, SBool, a, b)
	case "+":
		if a.Sort == SStr && b.Sort == SStr {
			return catTerms(a, b)
		}
		if a.Sort != SInt || b.Sort != SInt {
			specErr(e, "+ on sorts %s, %s", a.Sort, b.Sort)
		}
		return Add(a, b)
	case "-":
		return Sub(a, b)
	case "*":
		return mk("*", SInt, a, b)
	case "/":
		return mk("go_div", SInt, a, b)
	case "%":
		return mk("go_mod", SInt, a, b)
	}
	specErr(e, "unsupported operator %s", e.Name)
	return nil
}

func (x *Exec) trIndex(e *SExpr, env *TrEnv) *Term {
	a := x.trExpr(e.Args[0], env)
	i := x.trExpr(e.Args[1], env)
	if a.GoType != nil {
		if mt, ok := types.Unalias(a.GoType).Underlying().(*types.Map); ok {
			if env.inPat {
				_, vn, ks, vs := x.u.mapVars(mt)
				return withType(Select(Select(x.getSt(env.st, vn, arraySort(SRef, arraySort(ks, vs))), a), i), mt.Elem())
			}
			v, _ := x.mapLoad(env.st, mt, a, i)
			return v
		}
	}
	if k, _, ok := isArraySort(a.Sort); ok {
		if i.Sort != k {
			specErr(e, "index of sort %s into an array with keys of sort %s", i.Sort, k)
		}
		// ghost heaps belong to objects of particular library types: wbuf[x] is meaningful for builders/buffers only, ...
		if e.Args[0].Kind == "id" && i.GoType != nil {
			if allowed, ok := ghostOwners[e.Args[0].Name]; ok {
				tn := ""
				if n := namedOf(i.GoType); n != nil && n.Obj().Pkg() != nil {
					tn = n.Obj().Pkg().Name() + "." + n.Obj().Name()
				}
				if _, isIface := types.Unalias(i.GoType).Underlying().(*types.Interface); tn != "" && !isIface {
					fits := false
					for _, a := range allowed {
						if a == tn {
							fits = true
						}
					}
					if !fits {
						specErr(e, "%s[...] indexed by a %s", e.Args[0].Name, tn)
					}
				} else if isIface && tn != "" && tn != "io.Writer" && tn != "snaps.testingT" {
					specErr(e, "%s[...] indexed by an interface value of type %s", e.Args[0].Name, tn)
				}
			}
		}
		return Select(a, i)
	}
	if isSliceSort(a.Sort) {
		r := Select(x.u.sliceArr(a), i)
		if a.GoType != nil {
			if st, ok := types.Unalias(a.GoType).Underlying().(*types.Slice); ok {
				r = withType(r, st.Elem())
			}
		}
		return r
	}
	if a.Sort == SStr {
		return mk("s.byte", SInt, a, i)
	}
	specErr(e, "index on sort %s", a.Sort)
	return nil
}

// ghostOwners: the library types whose objects carry the ghost field.
var ghostOwners = map[string][]string{
	"wbuf":  {"strings.Builder", "bytes.Buffer"},
	"fpath": {"os.File"}, "foff": {"os.File"}, "fappend": {"os.File"},
	"scpos": {"bufio.Scanner"}, "scsrc": {"bufio.Scanner"}, "scunb": {"bufio.Scanner"}, "scgen": {"bufio.Scanner"},
	"held": {"sync.Mutex", "sync.RWMutex"},
}

// dottedPath flattens a selector chain of identifiers (a.b.c) into its components.
func dottedPath(e *SExpr) ([]string, bool) {
	switch e.Kind {
	case "id":
		return []string{e.Name}, true
	case "sel":
		p, ok := dottedPath(e.Args[0])
		if !ok {
			return nil, false
		}
		return append(p, e.Name), true
	}
	return nil, false
}

func (x *Exec) trSel(e *SExpr, env *TrEnv) *Term {
	if p, ok := dottedPath(e); ok && len(p) >= 3 && p[0] == "fn" {
		if _, isBound := env.bound["fn"]; !isBound {
			return V(strings.Join(p, "."), SFn)
		}
	}
	// package-qualified identifier
	if e.Args[0].Kind == "id" {
		if _, isBound := env.bound[e.Args[0].Name]; !isBound {
			if p, ok := x.u.Pkgs[e.Args[0].Name]; ok {
				if _, isVar := x.lookupProgramVar(e.Args[0].Name, env); !isVar {
					if t, ok := x.lookupGlobal(p.Types, e.Name, env); ok {
						return t
					}
					specErr(e, "unknown %s.%s", e.Args[0].Name, e.Name)
				}
			}
		}
	}
	if e.Args[0].Kind == "id" {
		if _, isBound := env.bound[e.Args[0].Name]; !isBound {
			if _, inRepo := x.u.Pkgs[e.Args[0].Name]; !inRepo {
				if lp, ok := x.u.libPkgs[e.Args[0].Name]; ok {
					if _, isVar := x.lookupProgramVar(e.Args[0].Name, env); !isVar {
						if t, ok := x.lookupGlobal(lp, e.Name, env); ok {
							return t
						}
					}
				}
			}
		}
	}
	if e.Args[0].Kind == "id" && e.Args[0].Name == "T" {
		if _, isBound := env.bound["T"]; !isBound {
			return V("T."+e.Name, SType)
		}
	}
	base := x.trExpr(e.Args[0], env)
	if si, ok := x.u.structs[base.Sort]; ok {
		for i, f := range si.Fields {
			if f == e.Name {
				return mk(base.Sort+"_"+f, si.FSorts[i], base)
			}
		}
		specErr(e, "no field %s in %s", e.Name, base.Sort)
	}
	if base.GoType == nil {
		specErr(e, "field selection .%s on untyped term of sort %s", e.Name, base.Sort)
	}
	n := namedOf(base.GoType)
	if n == nil {
		specErr(e, "field selection on %s", base.GoType)
	}
	st, ok := n.Underlying().(*types.Struct)
	if !ok {
		specErr(e, "field selection on non-struct %s", base.GoType)
	}
	// (possibly promoted) field lookup
	obj, index, _ := types.LookupFieldOrMethod(n, true, n.Obj().Pkg(), e.Name)
	fld, ok := obj.(*types.Var)
	if !ok {
		// ghost field: a ghost heap array named <field> indexed by Ref
		if gs, ok := x.u.ghostSorts[e.Name]; ok {
			return Select(x.getSt(env.st, e.Name, gs), base)
		}
		specErr(e, "no field %s in %s", e.Name, n)
	}
	cur := base
	curN := n
	curSt := st
	for k, idx := range index {
		f := curSt.Field(idx)
		fv := x.u.fieldVar(curN, f.Name())
		cur = Select(x.getSt(env.st, fv, arraySort(SRef, x.u.sortOf(f.Type()))), cur)
		if k < len(index)-1 {
			curN = namedOf(f.Type())
			curSt = curN.Underlying().(*types.Struct)
		}
	}
	return withType(cur, fld.Type())
}

func (x *Exec) trCall(e *SExpr, env *TrEnv) *Term {
	args := func() []*Term {
		out := make([]*Term, len(e.Args))
		for i, a := range e.Args {
			out[i] = x.trExpr(a, env)
		}
		return out
	}
	switch e.Name {
	case "len":
		a := x.trExpr(e.Args[0], env)
		if a.GoType != nil {
			if mt, ok := types.Unalias(a.GoType).Underlying().(*types.Map); ok {
				dn, _, ks, _ := x.u.mapVars(mt)
				dom := Select(x.getSt(env.st, dn, arraySort(SRef, arraySort(ks, SBool))), a)
				return Ite(Eq(a, V("null", SRef)), Num(0), mk("card_"+mangle(ks), SInt, dom))
			}
		}
		if a.Sort == SStr {
			return mk("s.len", SInt, a)
		}
		if isSliceSort(a.Sort) {
			return sliceLen(a)
		}
		specErr(e, "len of sort %s", a.Sort)
	case "has":
		a := x.trExpr(e.Args[0], env)
		k := x.trExpr(e.Args[1], env)
		if a.GoType != nil {
			if mt, ok := types.Unalias(a.GoType).Underlying().(*types.Map); ok {
				if env.inPat {
					dn, _, ks, _ := x.u.mapVars(mt)
					return Select(Select(x.getSt(env.st, dn, arraySort(SRef, arraySort(ks, SBool))), a), k)
				}
				_, okT := x.mapLoad(env.st, mt, a, k)
				return okT
			}
		}
		if _, v, ok := isArraySort(a.Sort); ok && v == SBool {
			return Select(a, k)
		}
		specErr(e, "has on sort %s", a.Sort)
	case "dom":
		a := x.trExpr(e.Args[0], env)
		if a.GoType != nil {
			if mt, ok := types.Unalias(a.GoType).Underlying().(*types.Map); ok {
				dn, _, ks, _ := x.u.mapVars(mt)
				return Select(x.getSt(env.st, dn, arraySort(SRef, arraySort(ks, SBool))), a)
			}
		}
		specErr(e, "dom of non-map")
	case "vals":
		a := x.trExpr(e.Args[0], env)
		if a.GoType != nil {
			if mt, ok := types.Unalias(a.GoType).Underlying().(*types.Map); ok {
				_, vn, ks, vs := x.u.mapVars(mt)
				return Select(x.getSt(env.st, vn, arraySort(SRef, arraySort(ks, vs))), a)
			}
		}
		specErr(e, "vals of non-map")
	case "store":
		as := args()
		return Store(as[0], as[1], as[2])
	case "select":
		as := args()
		return Select(as[0], as[1])
	case "itoa":
		return mk("s.from_int", SStr, x.trExpr(e.Args[0], env))
	case "prefixof", "suffixof", "contains":
		as := args()
		return mk("s."+e.Name, SBool, as...)
	case "indexof":
		as := args()
		return mk("s.indexof", SInt, as...)
	case "replace_all":
		as := args()
		return mk("s.replace_all", SStr, as...)
	case "substr":
		as := args()
		return mk("s.substr", SStr, as...)
	case "elems":
		// elems(s): the set of the elements of slice s (as an array elem -> Bool); the engine states how it evolves at
		// empty literals and appends of functions with `option slice-elems`
		v := x.trExpr(e.Args[0], env)
		if !isSliceSort(v.Sort) {
			specErr(e, "elems needs a slice")
		}
		return mk("elems_"+mangle(v.Sort), arraySort(x.u.sliceElem(v.Sort), SBool), v)
	case "applyVal", "applyErr":
		// the results of calling a function value of type func(any) (any, error) through its opaque pure model
		// (the engine lowers such calls to apply0_Any_Any / apply1_Any_Err)
		f := x.trExpr(e.Args[0], env)
		v := x.trExpr(e.Args[1], env)
		if e.Name == "applyVal" {
			return mk("apply0_Any_Any", SAny, f, v)
		}
		return mk("apply1_Any_Err", SErr, f, v)
	case "sortedBy":
		// sortedBy(f, s): what slices.IsSortedFunc(s, f) returns / slices.SortFunc establishes (engine symbol)
		f := x.trExpr(e.Args[0], env)
		v := x.trExpr(e.Args[1], env)
		if !isSliceSort(v.Sort) {
			specErr(e, "sortedBy needs a slice")
		}
		return mk("isSortedBy_"+mangle(v.Sort), SBool, f, v)
	case "allocated":
		return Select(x.getSt(env.st, "alloc", arraySort(SRef, SBool)), x.trExpr(e.Args[0], env))
	case "fresh":
		r := x.trExpr(e.Args[0], env)
		return And(Neq(r, V("null", SRef)), Not(Select(x.getSt(env.old.st, "alloc", arraySort(SRef, SBool)), r)))
	case "domheap", "valheap":
		if len(e.Args) == 1 && e.Args[0].Kind == "str" {
			mt := x.u.mapTypes[e.Args[0].Str]
			if mt == nil {
				specErr(e, "unknown map type %q (not used in this function)", e.Args[0].Str)
			}
			dn, vn, ks, vs := x.u.mapVars(mt)
			if e.Name == "domheap" {
				return x.getSt(env.st, dn, arraySort(SRef, arraySort(ks, SBool)))
			}
			return x.getSt(env.st, vn, arraySort(SRef, arraySort(ks, vs)))
		}
		specErr(e, "%s needs a map type string", e.Name)
	case "gotype":
		if len(e.Args) == 1 && e.Args[0].Kind == "str" {
			name := "T." + mangle(e.Args[0].Str)
			x.u.typeConsts[name] = true
			return V(name, SType)
		}
		specErr(e, "gotype needs a string literal")
	case "dyntype":
		return mk("dyntype", SType, x.trExpr(e.Args[0], env))
	case "typeName":
		return mk("typeName", SStr, x.trExpr(e.Args[0], env))
	case "box":
		v := x.trExpr(e.Args[0], env)
		return x.box(v, nil)
	case "owned":
		// owned(b): the byte slice b does not share memory with data of the caller of the function under verification
		t := x.trExpr(e.Args[0], env)
		return Not(x.getAlias(t))
	case "ptrAny":
		// the interface value stored behind a *interface{} pointer
		return Select(x.getSt(env.st, "P."+mangle(SAny), arraySort(SRef, SAny)), x.trExpr(e.Args[0], env))
	case "unboxRef":
		return mk("unbox_Ref", SRef, x.trExpr(e.Args[0], env))
	case "unboxStr":
		return mk("unbox_Str", SStr, x.trExpr(e.Args[0], env))
	case "arr":
		a := x.trExpr(e.Args[0], env)
		return x.u.sliceArr(a)
	case "mkslice":
		as := args()
		_, el, ok := isArraySort(as[1].Sort)
		if !ok {
			specErr(e, "mkslice needs an array")
		}
		return x.u.mkSlice(x.u.ensureSlice(el), as[0], as[1])
	case "emptyset":
		// emptyset(K) : not supported generically
	case "ite":
		as := args()
		return Ite(as[0], as[1], as[2])
	case "min":
		as := args()
		return Ite(Lt(as[0], as[1]), as[0], as[1])
	case "max":
		as := args()
		return Ite(Lt(as[1], as[0]), as[0], as[1])
	case "heap":
		// heap(Type.field) : the whole heap array
		if len(e.Args) == 1 && e.Args[0].Kind == "sel" && e.Args[0].Args[0].Kind == "id" {
			tn := e.Args[0].Args[0].Name
			if obj := env.pkg.Scope().Lookup(tn); obj != nil {
				if n, ok := obj.Type().(*types.Named); ok {
					st := n.Underlying().(*types.Struct)
					ft := fieldType(st, e.Args[0].Name)
					return x.getSt(env.st, x.u.fieldVar(n, e.Args[0].Name), arraySort(SRef, x.u.sortOf(ft)))
				}
			}
		}
		specErr(e, "bad heap(...)")
	}
	if f, ok := x.u.Specs.Funs[e.Name]; ok {
		as := args()
		if len(as) != len(f.Params) {
			specErr(e, "%s expects %d arguments", e.Name, len(f.Params))
		}
		for i := range as {
			if as[i].Op == "null" && f.PSorts[i] != SRef {
				as[i] = x.u.zero(f.PSorts[i])
			}
			if as[i].Sort != f.PSorts[i] {
				specErr(e, "%s argument %d has sort %s, expected %s", e.Name, i+1, as[i].Sort, f.PSorts[i])
			}
		}
		return mk(e.Name, f.Sort, as...)
	}
	// pure Go function used in a specification
	full := e.Name
	if !strings.Contains(full, ".") && env.pkg != nil {
		full = pkgShort(env.pkg) + "." + full
	}
	if c, ok := x.u.Specs.Contracts[full]; ok && c.Pure {
		fi := x.u.Funcs[full]
		if fi != nil && fi.Sig.Results().Len() == 1 {
			as := args()
			return withType(mk(pureName(full), x.u.sortOf(fi.Sig.Results().At(0).Type()), as...), fi.Sig.Results().At(0).Type())
		}
	}
	specErr(e, "unknown function %s", e.Name)
	return nil
}

func (e *TrEnv) pkgScope(x *Exec) *types.Scope {
	if e.pkg != nil {
		return e.pkg.Scope()
	}
	if x.fi != nil {
		return x.fi.Pkg.Types.Scope()
	}
	return types.Universe
}
