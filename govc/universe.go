package main

import (
	"fmt"
	"go/ast"
	"go/constant"
	"go/token"
	"go/types"
	"os"
	"path/filepath"
	"sort"
	"strings"

	"golang.org/x/tools/go/packages"
)

// pkgAlias maps import paths to the short package names used in contract names.
var pkgAlias = map[string]string{
	"github.com/gkampitakis/go-snaps/snaps":               "snaps",
	"github.com/gkampitakis/go-snaps/match":               "match",
	"github.com/gkampitakis/go-snaps/match/internal/yaml": "iyaml",
	"github.com/gkampitakis/go-snaps/internal/difflib":    "difflib",
	"github.com/gkampitakis/go-snaps/internal/colors":     "colors",
	"github.com/kr/pretty":                                "krpretty",
	"github.com/tidwall/pretty":                           "pretty",
	"github.com/goccy/go-yaml":                            "yaml",
	"github.com/goccy/go-yaml/parser":                     "yamlparser",
	"github.com/goccy/go-yaml/ast":                        "yamlast",
	"github.com/gkampitakis/go-diff/diffmatchpatch":       "diffmatchpatch",
	"go/parser":                                           "goparser",
	"go/ast":                                              "goast",
	"go/token":                                            "gotoken",
	"path/filepath":                                       "filepath",
	"path":                                                "path",
	"runtime/debug":                                       "debug",
	"encoding/json":                                       "json",
}

func pkgShort(p *types.Package) string {
	if p == nil {
		return "builtin"
	}
	if a, ok := pkgAlias[p.Path()]; ok {
		return a
	}
	return p.Name()
}

type FuncInfo struct {
	Name     string
	Pkg      *packages.Package
	Decl     *ast.FuncDecl
	Lit      *ast.FuncLit
	Outer    *FuncInfo
	Sig      *types.Signature
	Recv     *types.Var
	Body     *ast.BlockStmt
	Lits     []*FuncInfo // function literals inside, in source order
	Captured []*types.Var
	File     string
	Line     int
	NStmts   int
}

type Universe struct {
	Fset   *token.FileSet
	Pkgs   map[string]*packages.Package // by short name
	Specs  *Specs
	Funcs  map[string]*FuncInfo
	LitOf  map[*ast.FuncLit]*FuncInfo
	RepoDir string
	// datatype registry
	dtOrder []string
	dtDecl  map[string]string
	structs map[string]*structInfo // sort name -> info
	// global assignment census: globals assigned anywhere outside their declaration
	assignedGlobals map[types.Object][]string
	ghostSorts map[string]string
	// names of every state variable seen, with sorts
	stateSorts map[string]string
	typeConsts map[string]bool
	mapTypes   map[string]*types.Map
	libPkgs    map[string]*types.Package // imported (non-repo) packages by short name
}

type structInfo struct {
	Sort   string
	Fields []string
	FSorts []string
	Named  string
}

var repoPkgs = []string{"./snaps", "./match", "./match/internal/yaml", "./internal/difflib", "./internal/colors"}

func loadUniverse(repo string, specFiles []string) (*Universe, error) {
	fset := token.NewFileSet()
	cfg := &packages.Config{
		Mode:       packages.NeedName | packages.NeedFiles | packages.NeedCompiledGoFiles | packages.NeedImports | packages.NeedDeps | packages.NeedTypes | packages.NeedSyntax | packages.NeedTypesInfo | packages.NeedTypesSizes,
		Dir:        repo,
		Fset:       fset,
		BuildFlags: []string{"-tags=verif"},
		Env:        append(os.Environ(), "GOFLAGS=-mod=mod", "GOPROXY=off", "GOSUMDB=off", "GOTOOLCHAIN=local"),
	}
	pkgs, err := packages.Load(cfg, repoPkgs...)
	if err != nil {
		return nil, err
	}
	u := &Universe{Fset: fset, Pkgs: map[string]*packages.Package{}, Funcs: map[string]*FuncInfo{}, LitOf: map[*ast.FuncLit]*FuncInfo{},
		RepoDir: repo, dtDecl: map[string]string{}, structs: map[string]*structInfo{}, assignedGlobals: map[types.Object][]string{},
		ghostSorts: map[string]string{}, stateSorts: map[string]string{}, typeConsts: map[string]bool{}}
	for _, p := range pkgs {
		if len(p.Errors) > 0 {
			return nil, fmt.Errorf("package %s: %v", p.PkgPath, p.Errors[0])
		}
		u.Pkgs[pkgShort(p.Types)] = p
	}
	u.libPkgs = map[string]*types.Package{}
	{
		seen := map[*packages.Package]bool{}
		var visit func(p *packages.Package)
		visit = func(p *packages.Package) {
			if seen[p] || p.Types == nil {
				return
			}
			seen[p] = true
			short := pkgShort(p.Types)
			if _, dup := u.libPkgs[short]; !dup {
				u.libPkgs[short] = p.Types
			}
			for _, imp := range p.Imports {
				visit(imp)
			}
		}
		for _, p := range pkgs {
			visit(p)
		}
	}
	u.Specs = newSpecs()
	for _, f := range specFiles {
		if err := u.Specs.loadFile(f, ""); err != nil {
			return nil, err
		}
	}
	// contract files in the repo
	for short, p := range u.Pkgs {
		for _, f := range p.CompiledGoFiles {
			if filepath.Base(f) == "zz_contracts_verif.go" {
				if err := u.Specs.loadFile(f, short); err != nil {
					return nil, err
				}
			}
		}
	}
	for _, g := range u.Specs.Ghosts {
		u.ghostSorts[g.Name] = g.Sort
	}
	// declare the value structs and slice sorts named in specifications
	for key := range u.Specs.ValueStructs {
		if n := u.findNamed(pkgs, key); n != nil {
			if st, ok := n.Underlying().(*types.Struct); ok {
				u.ensureStruct(n, st)
			}
		}
	}
	for _, el := range pendingSliceElems {
		u.ensureSlice(el)
	}
	for short, p := range u.Pkgs {
		u.indexPackage(short, p)
	}
	return u, nil
}

func (u *Universe) recvTypeName(t types.Type) (string, bool) {
	ptr := false
	if p, ok := t.(*types.Pointer); ok {
		ptr = true
		t = p.Elem()
	}
	t = types.Unalias(t)
	if n, ok := t.(*types.Named); ok {
		return n.Obj().Name(), ptr
	}
	return t.String(), ptr
}

// funcName returns the contract name of a function object.
func (u *Universe) funcName(f *types.Func) string {
	sig := f.Type().(*types.Signature)
	pkg := pkgShort(f.Pkg())
	if recv := sig.Recv(); recv != nil {
		rt := recv.Type()
		if _, isIface := rt.Underlying().(*types.Interface); isIface {
			tn, _ := u.recvTypeName(rt)
			if f.Pkg() == nil { // error.Error
				return "builtin." + tn + "." + f.Name()
			}
			return pkg + "." + tn + "." + f.Name()
		}
		tn, ptr := u.recvTypeName(rt)
		if ptr {
			return pkg + ".(*" + tn + ")." + f.Name()
		}
		return pkg + "." + tn + "." + f.Name()
	}
	return pkg + "." + f.Name()
}

func (u *Universe) registerMapTypes(p *packages.Package) {
	for _, tv := range p.TypesInfo.Types {
		if tv.Type == nil {
			continue
		}
		if m, ok := tv.Type.Underlying().(*types.Map); ok {
			u.mapVars(m)
		}
	}
}

func (u *Universe) indexPackage(short string, p *packages.Package) {
	u.registerMapTypes(p)
	for _, file := range p.Syntax {
		fname := u.Fset.Position(file.Pos()).Filename
		if strings.HasSuffix(fname, "_test.go") {
			continue
		}
		for _, d := range file.Decls {
			fd, ok := d.(*ast.FuncDecl)
			if !ok || fd.Body == nil {
				continue
			}
			obj := p.TypesInfo.Defs[fd.Name].(*types.Func)
			fi := &FuncInfo{Name: u.funcName(obj), Pkg: p, Decl: fd, Sig: obj.Type().(*types.Signature), Body: fd.Body,
				File: filepath.Base(fname), Line: u.Fset.Position(fd.Pos()).Line}
			fi.Recv = fi.Sig.Recv()
			u.Funcs[fi.Name] = fi
			u.indexLits(fi, fd.Body, p)
		}
		// census of global assignments
		ast.Inspect(file, func(n ast.Node) bool {
			var lhs []ast.Expr
			switch s := n.(type) {
			case *ast.AssignStmt:
				if s.Tok != token.DEFINE {
					lhs = s.Lhs
				}
			case *ast.IncDecStmt:
				lhs = []ast.Expr{s.X}
			case *ast.UnaryExpr:
				if s.Op == token.AND {
					// address-of a global: treated as potential assignment only for basic-typed globals
					if id, ok := s.X.(*ast.Ident); ok {
						if v, ok := p.TypesInfo.Uses[id].(*types.Var); ok && v.Parent() == p.Types.Scope() {
							if _, isStruct := v.Type().Underlying().(*types.Struct); !isStruct {
								u.assignedGlobals[v] = append(u.assignedGlobals[v], u.Fset.Position(s.Pos()).String())
							}
						}
					}
				}
			}
			for _, l := range lhs {
				if id, ok := l.(*ast.Ident); ok {
					if v, ok := p.TypesInfo.Uses[id].(*types.Var); ok && v.Parent() == p.Types.Scope() {
						u.assignedGlobals[v] = append(u.assignedGlobals[v], u.Fset.Position(l.Pos()).String())
					}
				}
			}
			return true
		})
	}
}

func (u *Universe) indexLits(outer *FuncInfo, body ast.Node, p *packages.Package) {
	// direct function literals of this function (not nested deeper)
	var visit func(n ast.Node) bool
	visit = func(n ast.Node) bool {
		if fl, ok := n.(*ast.FuncLit); ok {
			fi := &FuncInfo{Name: fmt.Sprintf("%s$%d", outer.Name, len(outer.Lits)+1), Pkg: p, Lit: fl, Outer: outer,
				Sig: p.TypesInfo.TypeOf(fl).(*types.Signature), Body: fl.Body, File: outer.File, Line: u.Fset.Position(fl.Pos()).Line}
			outer.Lits = append(outer.Lits, fi)
			u.Funcs[fi.Name] = fi
			u.LitOf[fl] = fi
			fi.Captured = u.capturedVars(fi)
			u.indexLits(fi, fl.Body, p)
			return false
		}
		return true
	}
	ast.Inspect(body, visit)
}

// capturedVars: variables used in the literal but declared outside it (and not package level).
func (u *Universe) capturedVars(fi *FuncInfo) []*types.Var {
	seen := map[*types.Var]bool{}
	var out []*types.Var
	info := fi.Pkg.TypesInfo
	ast.Inspect(fi.Lit.Body, func(n ast.Node) bool {
		id, ok := n.(*ast.Ident)
		if !ok {
			return true
		}
		v, ok := info.Uses[id].(*types.Var)
		if !ok || v.IsField() {
			return true
		}
		if v.Parent() == nil || v.Parent() == fi.Pkg.Types.Scope() || v.Parent() == types.Universe {
			return true
		}
		if v.Pos() >= fi.Lit.Pos() && v.Pos() <= fi.Lit.End() {
			return true
		}
		if !seen[v] {
			seen[v] = true
			out = append(out, v)
		}
		return true
	})
	sort.Slice(out, func(i, j int) bool { return out[i].Pos() < out[j].Pos() })
	return out
}

// ---------------------------------------------------------------------------
// Go types -> sorts

func (u *Universe) isValueStruct(n *types.Named) bool {
	key := pkgShort(n.Obj().Pkg()) + "." + n.Obj().Name()
	return u.Specs.ValueStructs[key]
}

func (u *Universe) namedKey(n *types.Named) string {
	return pkgShort(n.Obj().Pkg()) + "." + n.Obj().Name()
}

func (u *Universe) sortOf(t types.Type) string {
	t = types.Unalias(t)
	switch tt := t.(type) {
	case *types.Basic:
		switch {
		case tt.Info()&types.IsBoolean != 0:
			return SBool
		case tt.Info()&types.IsInteger != 0:
			return SInt
		case tt.Info()&types.IsString != 0:
			return SStr
		case tt.Kind() == types.UntypedNil:
			return SRef
		case tt.Kind() == types.UnsafePointer:
			return SRef
		case tt.Info()&types.IsFloat != 0:
			return "Real"
		}
		return SInt
	case *types.Pointer:
		return SRef
	case *types.Map, *types.Chan:
		return SRef
	case *types.Signature:
		return SFn
	case *types.Slice:
		if b, ok := types.Unalias(tt.Elem()).Underlying().(*types.Basic); ok && (b.Kind() == types.Byte || b.Kind() == types.Uint8) {
			return SStr
		}
		return u.ensureSlice(u.sortOf(tt.Elem()))
	case *types.Array:
		return u.ensureSlice(u.sortOf(tt.Elem()))
	case *types.Named:
		if tt.Obj().Pkg() == nil && tt.Obj().Name() == "error" {
			return SErr
		}
		switch ut := tt.Underlying().(type) {
		case *types.Struct:
			if u.isValueStruct(tt) {
				return u.ensureStruct(tt, ut)
			}
			return SRef // heap struct; variables of this type hold a reference to their own cell
		case *types.Interface:
			if ut.NumMethods() == 0 {
				return SAny
			}
			return SRef
		default:
			return u.sortOf(ut)
		}
	case *types.Interface:
		if tt.NumMethods() == 0 {
			return SAny
		}
		return SRef
	case *types.Struct:
		if tt.NumFields() == 0 {
			return SBool // struct{}: unit
		}
		return SRef
	case *types.TypeParam:
		return SAny
	case *types.Tuple:
		return "Tuple"
	}
	return SInt
}

func (u *Universe) ensureSlice(elem string) string {
	name := sliceSort(elem)
	if _, ok := u.dtDecl[name]; ok {
		return name
	}
	u.dtDecl[name] = fmt.Sprintf("(declare-datatypes ((%s 0)) (((mk_%s (len_%s Int) (arr_%s (Array Int %s))))))", name, name, name, name, elem)
	u.dtOrder = append(u.dtOrder, name)
	return name
}

func (u *Universe) sliceElem(sortName string) string {
	// recover the element sort from the declaration
	d := u.dtDecl[sortName]
	i := strings.Index(d, "(Array Int ")
	if i < 0 {
		panic("not a slice sort: " + sortName)
	}
	rest := d[i+len("(Array Int "):]
	return rest[:len(rest)-len("))))))")]
}

func isSliceSort(s string) bool { return strings.HasPrefix(s, "Slice_") }

func (u *Universe) ensureStruct(n *types.Named, st *types.Struct) string {
	name := "S_" + mangle(u.namedKey(n))
	if _, ok := u.structs[name]; ok {
		return name
	}
	si := &structInfo{Sort: name, Named: u.namedKey(n)}
	u.structs[name] = si // register first (no recursive structs expected)
	var sb strings.Builder
	fmt.Fprintf(&sb, "(declare-datatypes ((%s 0)) (((mk_%s", name, name)
	for i := 0; i < st.NumFields(); i++ {
		f := st.Field(i)
		fs := u.sortOf(f.Type())
		si.Fields = append(si.Fields, f.Name())
		si.FSorts = append(si.FSorts, fs)
		fmt.Fprintf(&sb, " (%s_%s %s)", name, f.Name(), fs)
	}
	sb.WriteString("))))")
	u.dtDecl[name] = sb.String()
	u.dtOrder = append(u.dtOrder, name)
	return name
}

func sliceLen(s *Term) *Term { return mk("len_"+s.Sort, SInt, s) }
func (u *Universe) sliceArr(s *Term) *Term {
	return mk("arr_"+s.Sort, arraySort(SInt, u.sliceElem(s.Sort)), s)
}
func (u *Universe) mkSlice(sortName string, n, arr *Term) *Term {
	return mk("mk_"+sortName, sortName, n, arr)
}

// zero value of a sort
func (u *Universe) zero(sortName string) *Term {
	switch sortName {
	case SInt:
		return Num(0)
	case SBool:
		return False
	case SStr:
		return StrLit("")
	case SRef:
		return V("null", SRef)
	case SErr:
		return V("err_nil", SErr)
	case SAny:
		return V("any_nil", SAny)
	case SFn:
		return V("fn_nil", SFn)
	case "Real":
		return &Term{Op: "0.0", Sort: "Real"}
	}
	if isSliceSort(sortName) {
		el := u.sliceElem(sortName)
		return u.mkSlice(sortName, Num(0), &Term{Op: "const-array", Sort: arraySort(SInt, el), Args: []*Term{u.zero(el)}})
	}
	if si, ok := u.structs[sortName]; ok {
		var args []*Term
		for _, fs := range si.FSorts {
			args = append(args, u.zero(fs))
		}
		return mk("mk_"+sortName, sortName, args...)
	}
	if k, v, ok := isArraySort(sortName); ok {
		_ = k
		return &Term{Op: "const-array", Sort: sortName, Args: []*Term{u.zero(v)}}
	}
	return V("zero_"+mangle(sortName), sortName)
}

// heap field state variable for a heap struct
func (u *Universe) fieldVar(n *types.Named, field string) string {
	return "H." + u.namedKey(n) + "." + field
}

func (u *Universe) mapVars(m *types.Map) (dom, val string, ks, vs string) {
	ks = u.sortOf(m.Key())
	vs = u.sortOf(m.Elem())
	if u.mapTypes == nil {
		u.mapTypes = map[string]*types.Map{}
	}
	u.mapTypes[types.TypeString(m, func(p *types.Package) string { return pkgShort(p) })] = m
	base := mangle(ks) + "." + mangle(vs)
	return "Md." + base, "Mv." + base, ks, vs
}

func (u *Universe) ptrVar(elem types.Type) (string, string) {
	s := u.sortOf(elem)
	return "P." + mangle(s), s
}

func (u *Universe) globalVar(v *types.Var) string {
	return "g." + pkgShort(v.Pkg()) + "." + v.Name()
}

// isConstGlobal: package-level variable never assigned after initialisation.
func (u *Universe) isConstGlobal(v *types.Var) bool {
	if _, inRepo := u.Pkgs[pkgShort(v.Pkg())]; !inRepo {
		return u.Specs.ConstGlobals[pkgShort(v.Pkg())+"."+v.Name()]
	}
	return len(u.assignedGlobals[v]) == 0
}

// constInit: for a never-assigned package-level variable whose initialiser is a constant (possibly under a
// conversion such as []byte("---")), the constant as a term; nil otherwise.
func (u *Universe) constInit(v *types.Var) *Term {
	p, ok := u.Pkgs[pkgShort(v.Pkg())]
	if !ok {
		return nil
	}
	for _, file := range p.Syntax {
		for _, d := range file.Decls {
			gd, ok := d.(*ast.GenDecl)
			if !ok || gd.Tok != token.VAR {
				continue
			}
			for _, sp := range gd.Specs {
				vs := sp.(*ast.ValueSpec)
				for i, n := range vs.Names {
					if p.TypesInfo.Defs[n] != v || i >= len(vs.Values) {
						continue
					}
					e := ast.Unparen(vs.Values[i])
					if call, ok := e.(*ast.CallExpr); ok && len(call.Args) == 1 {
						if tv, ok := p.TypesInfo.Types[call.Fun]; ok && tv.IsType() {
							e = call.Args[0]
						}
					}
					if tv, ok := p.TypesInfo.Types[e]; ok && tv.Value != nil {
						switch tv.Value.Kind() {
						case constant.String:
							return StrLit(constant.StringVal(tv.Value))
						case constant.Bool:
							if constant.BoolVal(tv.Value) {
								return True
							}
							return False
						case constant.Int:
							if n, ok := constant.Int64Val(tv.Value); ok {
								return Num(int(n))
							}
						}
					}
					return nil
				}
			}
		}
	}
	return nil
}

// findNamed resolves "pkg.Type" (short package name) among the loaded packages and their imports.
func (u *Universe) findNamed(pkgs []*packages.Package, key string) *types.Named {
	i := strings.Index(key, ".")
	if i < 0 {
		return nil
	}
	short, name := key[:i], key[i+1:]
	seen := map[*packages.Package]bool{}
	var found *types.Named
	var visit func(p *packages.Package)
	visit = func(p *packages.Package) {
		if seen[p] || found != nil || p.Types == nil {
			return
		}
		seen[p] = true
		if pkgShort(p.Types) == short {
			if obj := p.Types.Scope().Lookup(name); obj != nil {
				if n, ok := obj.Type().(*types.Named); ok {
					found = n
					return
				}
			}
		}
		for _, imp := range p.Imports {
			visit(imp)
		}
	}
	for _, p := range pkgs {
		visit(p)
	}
	return found
}
