package main

import (
	"fmt"
	"os"
	"path/filepath"
	"strconv"
	"strings"
	"unicode"
)

// ---------------------------------------------------------------------------
// Specification AST

type SExpr struct {
	Kind string // int str bool nil id old call index sel unary binary cond forall exists let slice
	Name string // id name, operator, selector field, call target
	Args []*SExpr
	Int  int
	Str  string
	// quantifiers / let
	Vars  []string
	Sorts []string // explicit sorts ("" => bounded Int via Lo/Hi)
	Lo    []*SExpr
	Hi    []*SExpr
	Pats  [][]*SExpr
	Pos   string
}

type Clause struct {
	Expr  *SExpr
	Label string
	Text  string
	Pos   string
	Props []string // optional property tags
}

type LoopSpec struct {
	Invariants []*Clause
	Asserts    []*Clause // extra assertions checked/assumed at loop head (unused)
}

type Contract struct {
	Name     string
	Params   []string
	Results  []string
	Mode     string
	Requires []*Clause
	Ensures  []*Clause
	Assigns  []*SExpr
	HasAssigns bool
	Loops    map[string]*LoopSpec
	Trusted  bool
	Pure     bool
	NoBody   bool // contract only (interface method / library); never verified
	Props    []string
	Pos      string
	Lets     []letDef
	Isolate  map[string]int // label -> isolation group (one per `isolate` line)
	nIsolate int
	Hints    map[string][]*Clause // statement-ordinal -> asserted hints
	Drops    []string             // callee names whose calls are dropped (no effect) in this function
	Dead     []string             // return tags (ret5) that are expected to be unreachable (defensive code)
	Options  map[string]bool
	GhostAssigns []ghostAssign // ghost updates performed at function entry (body verification only)
	Used     bool
}

type ghostAssign struct {
	Var  string
	Expr *SExpr
}

type letDef struct {
	Name string
	Expr *SExpr
	Text string
}

type Lemma struct {
	LemmaOnly bool
	Name  string
	Mode  string
	Expr  *SExpr
	Text  string
	Pos   string
	Axiom bool
	Props []string
	Use    string // modes in which the proved lemma is available as an axiom (default: its own mode)
	Canary string // known-finding tag when this lemma is expected to FAIL
	Pkg    string
}

type GhostVar struct {
	Name string
	Sort string
	Pos  string
}

type SpecFun struct {
	Name   string
	Params []string
	PSorts []string
	Sort   string
	Body   *SExpr // nil => uninterpreted
	Mode   string
	Pos    string
	Pkg    string
}

type SpecConst struct {
	Name string
	Sort string
	Expr *SExpr
}

type Specs struct {
	Contracts map[string]*Contract
	Lemmas    []*Lemma
	Ghosts    []*GhostVar
	Funs      map[string]*SpecFun
	FunOrder  []string
	ValueStructs map[string]bool
	ConstGlobals map[string]bool
	// Guards: "pkg.Type.field" -> name of the mutex field of the same struct that must be held to access it
	Guards map[string]string
}

func newSpecs() *Specs {
	return &Specs{Contracts: map[string]*Contract{}, Funs: map[string]*SpecFun{}, ValueStructs: map[string]bool{}, ConstGlobals: map[string]bool{}, Guards: map[string]string{}}
}

// ---------------------------------------------------------------------------
// Lexer

type stoken struct {
	kind string // id int str op eof
	text string
	ival int
}

type lexer struct {
	src  string
	pos  int
	toks []stoken
}

func lex(src string) ([]stoken, error) {
	var toks []stoken
	i := 0
	for i < len(src) {
		c := src[i]
		if c == ' ' || c == '\t' || c == '\n' || c == '\r' {
			i++
			continue
		}
		if c == '/' && i+1 < len(src) && src[i+1] == '/' {
			// comment to end of line
			for i < len(src) && src[i] != '\n' {
				i++
			}
			continue
		}
		if unicode.IsLetter(rune(c)) || c == '_' || c == '$' {
			j := i + 1
			for j < len(src) && (unicode.IsLetter(rune(src[j])) || unicode.IsDigit(rune(src[j])) || src[j] == '_' || src[j] == '$' || src[j] == '!') {
				j++
			}
			toks = append(toks, stoken{kind: "id", text: src[i:j]})
			i = j
			continue
		}
		if unicode.IsDigit(rune(c)) {
			j := i + 1
			for j < len(src) && unicode.IsDigit(rune(src[j])) {
				j++
			}
			n, _ := strconv.Atoi(src[i:j])
			toks = append(toks, stoken{kind: "int", text: src[i:j], ival: n})
			i = j
			continue
		}
		if c == '"' {
			j := i + 1
			for j < len(src) && src[j] != '"' {
				if src[j] == '\\' {
					j++
				}
				j++
			}
			if j >= len(src) {
				return nil, fmt.Errorf("unterminated string literal")
			}
			s, err := strconv.Unquote(src[i : j+1])
			if err != nil {
				return nil, fmt.Errorf("bad string literal %s: %v", src[i:j+1], err)
			}
			toks = append(toks, stoken{kind: "str", text: s})
			i = j + 1
			continue
		}
		if c == '\'' {
			j := i + 1
			for j < len(src) && src[j] != '\'' {
				if src[j] == '\\' {
					j++
				}
				j++
			}
			r, _, _, err := strconv.UnquoteChar(src[i+1:j], '\'')
			if err != nil {
				return nil, fmt.Errorf("bad char literal")
			}
			toks = append(toks, stoken{kind: "int", text: src[i : j+1], ival: int(r)})
			i = j + 1
			continue
		}
		// operators
		ops := []string{"<==>", "==>", "..", "&&", "||", "==", "!=", "<=", ">=", "::", "+", "-", "*", "/", "%", "<", ">", "!", "(", ")", "[", "]", "{", "}", ",", ":", "?", ".", "=", "|", "@"}
		matched := false
		for _, op := range ops {
			if strings.HasPrefix(src[i:], op) {
				toks = append(toks, stoken{kind: "op", text: op})
				i += len(op)
				matched = true
				break
			}
		}
		if !matched {
			return nil, fmt.Errorf("unexpected character %q", c)
		}
	}
	toks = append(toks, stoken{kind: "eof"})
	return toks, nil
}

// ---------------------------------------------------------------------------
// Parser

type sparser struct {
	toks []stoken
	p    int
	pos  string
}

func (p *sparser) peek() stoken { return p.toks[p.p] }
func (p *sparser) next() stoken { t := p.toks[p.p]; p.p++; return t }
func (p *sparser) isOp(s string) bool {
	t := p.peek()
	return t.kind == "op" && t.text == s
}
func (p *sparser) isID(s string) bool {
	t := p.peek()
	return t.kind == "id" && t.text == s
}
func (p *sparser) expectOp(s string) {
	if !p.isOp(s) {
		panic(fmt.Errorf("%s: expected %q, got %q", p.pos, s, p.peek().text))
	}
	p.next()
}

func parseSpecExpr(src, pos string) (e *SExpr, err error) {
	toks, err := lex(src)
	if err != nil {
		return nil, fmt.Errorf("%s: %v", pos, err)
	}
	p := &sparser{toks: toks, pos: pos}
	defer func() {
		if r := recover(); r != nil {
			if er, ok := r.(error); ok {
				err = er
				return
			}
			panic(r)
		}
	}()
	e = p.expr()
	if p.peek().kind != "eof" {
		panic(fmt.Errorf("%s: trailing tokens starting at %q in %q", pos, p.peek().text, src))
	}
	return e, nil
}

func (p *sparser) expr() *SExpr { return p.iff() }

func (p *sparser) iff() *SExpr {
	l := p.implies()
	for p.isOp("<==>") {
		p.next()
		r := p.implies()
		l = &SExpr{Kind: "binary", Name: "<==>", Args: []*SExpr{l, r}, Pos: p.pos}
	}
	return l
}

func (p *sparser) implies() *SExpr {
	l := p.cond()
	if p.isOp("==>") {
		p.next()
		r := p.implies()
		return &SExpr{Kind: "binary", Name: "==>", Args: []*SExpr{l, r}, Pos: p.pos}
	}
	return l
}

func (p *sparser) cond() *SExpr {
	c := p.or()
	if p.isOp("?") {
		p.next()
		a := p.cond()
		p.expectOp(":")
		b := p.cond()
		return &SExpr{Kind: "cond", Args: []*SExpr{c, a, b}, Pos: p.pos}
	}
	return c
}

func (p *sparser) or() *SExpr {
	l := p.and()
	for p.isOp("||") {
		p.next()
		r := p.and()
		l = &SExpr{Kind: "binary", Name: "||", Args: []*SExpr{l, r}, Pos: p.pos}
	}
	return l
}

func (p *sparser) and() *SExpr {
	l := p.cmp()
	for p.isOp("&&") {
		p.next()
		r := p.cmp()
		l = &SExpr{Kind: "binary", Name: "&&", Args: []*SExpr{l, r}, Pos: p.pos}
	}
	return l
}

func (p *sparser) cmp() *SExpr {
	l := p.add()
	// chained comparisons a <= b < c are expanded
	var res *SExpr
	for {
		t := p.peek()
		if t.kind == "op" && (t.text == "==" || t.text == "!=" || t.text == "<" || t.text == "<=" || t.text == ">" || t.text == ">=") {
			p.next()
			r := p.add()
			c := &SExpr{Kind: "binary", Name: t.text, Args: []*SExpr{l, r}, Pos: p.pos}
			if res == nil {
				res = c
			} else {
				res = &SExpr{Kind: "binary", Name: "&&", Args: []*SExpr{res, c}, Pos: p.pos}
			}
			l = r
			continue
		}
		break
	}
	if res != nil {
		return res
	}
	return l
}

func (p *sparser) add() *SExpr {
	l := p.mul()
	for p.isOp("+") || p.isOp("-") {
		op := p.next().text
		r := p.mul()
		l = &SExpr{Kind: "binary", Name: op, Args: []*SExpr{l, r}, Pos: p.pos}
	}
	return l
}

func (p *sparser) mul() *SExpr {
	l := p.unary()
	for p.isOp("*") || p.isOp("/") || p.isOp("%") {
		op := p.next().text
		r := p.unary()
		l = &SExpr{Kind: "binary", Name: op, Args: []*SExpr{l, r}, Pos: p.pos}
	}
	return l
}

func (p *sparser) unary() *SExpr {
	if p.isOp("!") || p.isOp("-") || p.isOp("*") {
		op := p.next().text
		e := p.unary()
		return &SExpr{Kind: "unary", Name: op, Args: []*SExpr{e}, Pos: p.pos}
	}
	return p.postfix()
}

func (p *sparser) postfix() *SExpr {
	e := p.primary()
	for {
		switch {
		case p.isOp("."):
			p.next()
			t := p.next()
			if t.kind != "id" {
				panic(fmt.Errorf("%s: expected field name after '.'", p.pos))
			}
			e = &SExpr{Kind: "sel", Name: t.text, Args: []*SExpr{e}, Pos: p.pos}
		case p.isOp("["):
			p.next()
			var lo, hi *SExpr
			if !p.isOp(":") {
				lo = p.expr()
			}
			if p.isOp(":") {
				p.next()
				if !p.isOp("]") {
					hi = p.expr()
				}
				p.expectOp("]")
				e = &SExpr{Kind: "slice", Args: []*SExpr{e, lo, hi}, Pos: p.pos}
				continue
			}
			p.expectOp("]")
			e = &SExpr{Kind: "index", Args: []*SExpr{e, lo}, Pos: p.pos}
		case p.isOp("("):
			// call: only on identifiers / selectors
			p.next()
			var args []*SExpr
			for !p.isOp(")") {
				args = append(args, p.expr())
				if p.isOp(",") {
					p.next()
				}
			}
			p.expectOp(")")
			name := ""
			switch e.Kind {
			case "id":
				name = e.Name
			case "sel":
				// qualified name pkg.f or method call x.m(...) -> treated as m(x, ...)
				if e.Args[0].Kind == "id" {
					name = e.Args[0].Name + "." + e.Name
				} else {
					panic(fmt.Errorf("%s: unsupported call target", p.pos))
				}
			default:
				panic(fmt.Errorf("%s: unsupported call target", p.pos))
			}
			if name == "old" {
				if len(args) != 1 {
					panic(fmt.Errorf("%s: old takes one argument", p.pos))
				}
				e = &SExpr{Kind: "old", Args: args, Pos: p.pos}
			} else {
				e = &SExpr{Kind: "call", Name: name, Args: args, Pos: p.pos}
			}
		default:
			return e
		}
	}
}

func (p *sparser) primary() *SExpr {
	t := p.next()
	switch t.kind {
	case "int":
		return &SExpr{Kind: "int", Int: t.ival, Pos: p.pos}
	case "str":
		return &SExpr{Kind: "str", Str: t.text, Pos: p.pos}
	case "id":
		switch t.text {
		case "true":
			return &SExpr{Kind: "bool", Int: 1, Pos: p.pos}
		case "false":
			return &SExpr{Kind: "bool", Int: 0, Pos: p.pos}
		case "nil":
			return &SExpr{Kind: "nil", Pos: p.pos}
		case "forall", "exists":
			return p.quant(t.text)
		case "let":
			// let x = e in body
			v := p.next()
			p.expectOp("=")
			val := p.cond()
			if !p.isID("in") {
				panic(fmt.Errorf("%s: expected 'in' in let", p.pos))
			}
			p.next()
			body := p.expr()
			return &SExpr{Kind: "let", Vars: []string{v.text}, Args: []*SExpr{val, body}, Pos: p.pos}
		}
		return &SExpr{Kind: "id", Name: t.text, Pos: p.pos}
	case "op":
		if t.text == "(" {
			e := p.expr()
			p.expectOp(")")
			return e
		}
	}
	panic(fmt.Errorf("%s: unexpected token %q", p.pos, t.text))
}

// forall k in lo..hi, j in lo..hi: P      (bounded integer ranges, hi exclusive)
// forall x Sort, y Sort: P                 (unbounded)
// optional triggers: forall x Sort {f(x)} {g(x)}: P
func (p *sparser) quant(kind string) *SExpr {
	q := &SExpr{Kind: kind, Pos: p.pos}
	for {
		v := p.next()
		if v.kind != "id" {
			panic(fmt.Errorf("%s: expected bound variable", p.pos))
		}
		q.Vars = append(q.Vars, v.text)
		if p.isID("in") {
			p.next()
			lo := p.add()
			p.expectOp("..")
			hi := p.add()
			q.Sorts = append(q.Sorts, "")
			q.Lo = append(q.Lo, lo)
			q.Hi = append(q.Hi, hi)
		} else {
			q.Sorts = append(q.Sorts, p.sortName())
			q.Lo = append(q.Lo, nil)
			q.Hi = append(q.Hi, nil)
		}
		if p.isOp(",") {
			p.next()
			continue
		}
		break
	}
	for p.isOp("{") {
		p.next()
		var pat []*SExpr
		for !p.isOp("}") {
			pat = append(pat, p.expr())
			if p.isOp(",") {
				p.next()
			}
		}
		p.expectOp("}")
		q.Pats = append(q.Pats, pat)
	}
	if p.isOp("::") {
		p.next()
	} else {
		p.expectOp(":")
	}
	q.Args = []*SExpr{p.expr()}
	return q
}

// sortName parses Int | Bool | Str | Ref | Array<K,V> | Slice<T> | Set<K> | name
func (p *sparser) sortName() string {
	t := p.next()
	if t.kind != "id" {
		panic(fmt.Errorf("%s: expected sort name, got %q", p.pos, t.text))
	}
	switch t.text {
	case "Array":
		p.expectOp("<")
		k := p.sortName()
		p.expectOp(",")
		v := p.sortName()
		p.expectOp(">")
		return arraySort(k, v)
	case "Set":
		p.expectOp("<")
		k := p.sortName()
		p.expectOp(">")
		return arraySort(k, SBool)
	case "Slice":
		p.expectOp("<")
		k := p.sortName()
		p.expectOp(">")
		pendingSliceElems = append(pendingSliceElems, k)
		return sliceSort(k)
	}
	return t.text
}

func parseSort(src, pos string) (s string, err error) {
	toks, err := lex(src)
	if err != nil {
		return "", err
	}
	p := &sparser{toks: toks, pos: pos}
	defer func() {
		if r := recover(); r != nil {
			if er, ok := r.(error); ok {
				err = er
				return
			}
			panic(r)
		}
	}()
	s = p.sortName()
	return s, nil
}

// ---------------------------------------------------------------------------
// Contract files

var clauseKeywords = map[string]bool{
	"func": true, "lemma": true, "axiom": true, "ghost": true, "specfun": true, "mode": true,
	"requires": true, "ensures": true, "assigns": true, "loop": true, "trusted": true, "pure": true,
	"props": true, "let": true, "valuestruct": true, "constglobal": true, "guard": true, "canary": true, "nobody": true,
	"hint": true, "drop": true, "end": true, "dead": true, "option": true, "isolate": true,
}

// readSpecLines extracts the logical spec lines of a file. For .go files only
// lines starting with //@ or // @ are used; for .spec files every line.
func readSpecLines(path string) ([]string, []int, error) {
	data, err := os.ReadFile(path)
	if err != nil {
		return nil, nil, err
	}
	var lines []string
	var nums []int
	isGo := strings.HasSuffix(path, ".go")
	for i, l := range strings.Split(string(data), "\n") {
		if isGo {
			t := strings.TrimSpace(l)
			if strings.HasPrefix(t, "//@") {
				l = t[3:]
			} else if strings.HasPrefix(t, "// @") {
				l = t[4:]
			} else {
				continue
			}
		} else {
			if strings.HasPrefix(strings.TrimSpace(l), "#") {
				continue
			}
		}
		// strip trailing comment "//" outside string literals
		l = stripComment(l)
		if strings.TrimSpace(l) == "" {
			continue
		}
		lines = append(lines, l)
		nums = append(nums, i+1)
	}
	return lines, nums, nil
}

func stripComment(l string) string {
	inStr := false
	for i := 0; i < len(l); i++ {
		switch l[i] {
		case '\\':
			if inStr {
				i++
			}
		case '"':
			inStr = !inStr
		case '/':
			if !inStr && i+1 < len(l) && l[i+1] == '/' {
				return l[:i]
			}
		}
	}
	return l
}

func firstWord(s string) (string, string) {
	s = strings.TrimSpace(s)
	i := strings.IndexAny(s, " \t")
	if i < 0 {
		return s, ""
	}
	return s[:i], strings.TrimSpace(s[i+1:])
}

// parseLabel: clause text may start with "[label]" and/or "@C01,C02"
func parseClause(text, pos string) (*Clause, error) {
	c := &Clause{Pos: pos}
	text = strings.TrimSpace(text)
	for {
		if strings.HasPrefix(text, "[") {
			j := strings.Index(text, "]")
			if j > 0 && !strings.ContainsAny(text[1:j], " ()=<>") {
				c.Label = text[1:j]
				text = strings.TrimSpace(text[j+1:])
				continue
			}
		}
		if strings.HasPrefix(text, "@") {
			w, rest := firstWord(text[1:])
			c.Props = strings.Split(w, ",")
			text = rest
			continue
		}
		break
	}
	c.Text = text
	e, err := parseSpecExpr(text, pos)
	if err != nil {
		return nil, err
	}
	c.Expr = e
	return c, nil
}

func (sp *Specs) loadFile(path string, defaultPkg string) error {
	lines, nums, err := readSpecLines(path)
	if err != nil {
		return err
	}
	// group into logical clauses: a clause starts with a keyword; following
	// lines that do not start with a keyword are continuations.
	type logical struct {
		kw, rest string
		line     int
	}
	var ls []logical
	for i, l := range lines {
		kw, rest := firstWord(l)
		if clauseKeywords[kw] {
			ls = append(ls, logical{kw, rest, nums[i]})
		} else {
			if len(ls) == 0 {
				return fmt.Errorf("%s:%d: continuation without clause", path, nums[i])
			}
			ls[len(ls)-1].rest += " " + strings.TrimSpace(l)
		}
	}
	var cur *Contract
	mode := ""
	base := filepath.Base(path)
	for _, l := range ls {
		pos := fmt.Sprintf("%s:%d", base, l.line)
		switch l.kw {
		case "end":
			cur = nil
		case "mode":
			if cur != nil {
				cur.Mode = l.rest
			} else {
				mode = l.rest
			}
		case "valuestruct":
			for _, n := range strings.Split(l.rest, ",") {
				sp.ValueStructs[strings.TrimSpace(n)] = true
			}
		case "constglobal":
			for _, n := range strings.Split(l.rest, ",") {
				sp.ConstGlobals[strings.TrimSpace(n)] = true
			}
		case "guard":
			// guard pkg.Type.field[,field] by lockField
			parts := strings.Split(l.rest, " by ")
			if len(parts) != 2 {
				return fmt.Errorf("%s: guard: expected `pkg.Type.field by lockField`", pos)
			}
			fs := strings.Split(parts[0], ",")
			first := strings.TrimSpace(fs[0])
			i := strings.LastIndex(first, ".")
			if i < 0 {
				return fmt.Errorf("%s: guard: expected pkg.Type.field", pos)
			}
			sp.Guards[first] = strings.TrimSpace(parts[1])
			for _, f := range fs[1:] {
				sp.Guards[first[:i+1]+strings.TrimSpace(f)] = strings.TrimSpace(parts[1])
			}
		case "func":
			c, err := parseFuncHeader(l.rest, defaultPkg, pos)
			if err != nil {
				return err
			}
			if _, dup := sp.Contracts[c.Name]; dup {
				return fmt.Errorf("%s: duplicate contract for %s", pos, c.Name)
			}
			c.Mode = mode
			sp.Contracts[c.Name] = c
			cur = c
		case "trusted":
			cur.Trusted = true
		case "nobody":
			cur.NoBody = true
		case "pure":
			cur.Pure = true
		case "props":
			if cur != nil {
				cur.Props = append(cur.Props, splitList(l.rest)...)
			}
		case "drop":
			cur.Drops = append(cur.Drops, splitList(l.rest)...)
		case "dead":
			cur.Dead = append(cur.Dead, splitList(l.rest)...)
		case "isolate":
			// isolate L1, L2, ...: the hypotheses contributed by loop invariants labelled L1, L2, ... are given only to
			// obligations whose own label is in the list (dropping hypotheses is always sound)
			if cur == nil {
				return fmt.Errorf("%s: isolate outside func", pos)
			}
			if cur.Isolate == nil {
				cur.Isolate = map[string]int{}
			}
			cur.nIsolate++
			for _, o := range splitList(l.rest) {
				cur.Isolate[o] = cur.nIsolate // each isolate line is one group
			}
		case "option":
			if cur.Options == nil {
				cur.Options = map[string]bool{}
			}
			for _, o := range splitList(l.rest) {
				cur.Options[o] = true
			}
		case "requires", "ensures":
			if cur == nil {
				return fmt.Errorf("%s: %s outside func", pos, l.kw)
			}
			cl, err := parseClause(l.rest, pos)
			if err != nil {
				return err
			}
			if l.kw == "requires" {
				cur.Requires = append(cur.Requires, cl)
			} else {
				cur.Ensures = append(cur.Ensures, cl)
			}
		case "let":
			if cur == nil {
				return fmt.Errorf("%s: let outside func", pos)
			}
			i := strings.Index(l.rest, "=")
			if i < 0 {
				return fmt.Errorf("%s: bad let", pos)
			}
			e, err := parseSpecExpr(l.rest[i+1:], pos)
			if err != nil {
				return err
			}
			cur.Lets = append(cur.Lets, letDef{strings.TrimSpace(l.rest[:i]), e, l.rest[i+1:]})
		case "assigns":
			if cur == nil {
				return fmt.Errorf("%s: assigns outside func", pos)
			}
			cur.HasAssigns = true
			if strings.TrimSpace(l.rest) == "nothing" {
				break
			}
			for _, part := range splitTop(l.rest) {
				e, err := parseSpecExpr(part, pos)
				if err != nil {
					return err
				}
				cur.Assigns = append(cur.Assigns, e)
			}
		case "loop":
			if cur == nil {
				return fmt.Errorf("%s: loop outside func", pos)
			}
			ord, rest := firstWord(l.rest)
			kw, rest2 := firstWord(rest)
			if kw != "invariant" {
				return fmt.Errorf("%s: expected 'invariant' after loop ordinal", pos)
			}
			cl, err := parseClause(rest2, pos)
			if err != nil {
				return err
			}
			if cur.Loops == nil {
				cur.Loops = map[string]*LoopSpec{}
			}
			if cur.Loops[ord] == nil {
				cur.Loops[ord] = &LoopSpec{}
			}
			cur.Loops[ord].Invariants = append(cur.Loops[ord].Invariants, cl)
		case "hint":
			// hint <where> assert <expr>   where = "loop 1 body-end" etc. (free-form key)
			i := strings.Index(l.rest, " assert ")
			if i < 0 {
				return fmt.Errorf("%s: bad hint", pos)
			}
			key := strings.TrimSpace(l.rest[:i])
			cl, err := parseClause(l.rest[i+8:], pos)
			if err != nil {
				return err
			}
			if cur.Hints == nil {
				cur.Hints = map[string][]*Clause{}
			}
			cur.Hints[key] = append(cur.Hints[key], cl)
		case "lemma", "axiom":
			i := strings.Index(l.rest, ":")
			if i < 0 {
				return fmt.Errorf("%s: lemma needs 'name: formula'", pos)
			}
			name := strings.TrimSpace(l.rest[:i])
			text := l.rest[i+1:]
			lm := &Lemma{Name: name, Mode: mode, Pos: pos, Axiom: l.kw == "axiom", Text: strings.TrimSpace(text), Pkg: defaultPkg}
			// optional attributes in name: "name @C01,C02 canary=K2"
			fields := strings.Fields(name)
			lm.Name = fields[0]
			for _, f := range fields[1:] {
				if strings.HasPrefix(f, "@") {
					lm.Props = strings.Split(f[1:], ",")
				} else if strings.HasPrefix(f, "canary=") {
					lm.Canary = f[len("canary="):]
				} else if strings.HasPrefix(f, "mode=") {
					lm.Mode = f[len("mode="):]
				} else if strings.HasPrefix(f, "use=") {
					lm.Use = f[len("use="):]
				} else if f == "scope=lemmas" {
					// an opaque definition: visible only while proving lemmas, never in the VCs of functions
					lm.LemmaOnly = true
				}
			}
			e, err := parseSpecExpr(text, pos)
			if err != nil {
				return err
			}
			lm.Expr = e
			sp.Lemmas = append(sp.Lemmas, lm)
			cur = nil
		case "ghost":
			// ghost var name Sort      (declaration)
			// ghost name = expr        (inside a func contract: ghost update at entry)
			kw, rest := firstWord(l.rest)
			if kw != "var" && cur != nil {
				i := strings.Index(l.rest, "=")
				if i < 0 {
					return fmt.Errorf("%s: bad ghost assignment", pos)
				}
				e, err := parseSpecExpr(l.rest[i+1:], pos)
				if err != nil {
					return err
				}
				cur.GhostAssigns = append(cur.GhostAssigns, ghostAssign{strings.TrimSpace(l.rest[:i]), e})
				break
			}
			if kw != "var" {
				return fmt.Errorf("%s: expected 'ghost var'", pos)
			}
			name, srt := firstWord(rest)
			s, err := parseSort(srt, pos)
			if err != nil {
				return fmt.Errorf("%s: %v", pos, err)
			}
			sp.Ghosts = append(sp.Ghosts, &GhostVar{Name: name, Sort: s, Pos: pos})
			cur = nil
		case "specfun":
			f, err := parseSpecFun(l.rest, pos)
			if err != nil {
				return err
			}
			if _, dup := sp.Funs[f.Name]; dup {
				return fmt.Errorf("%s: duplicate specfun %s", pos, f.Name)
			}
			f.Mode = mode
			f.Pkg = defaultPkg
			sp.Funs[f.Name] = f
			sp.FunOrder = append(sp.FunOrder, f.Name)
			cur = nil
		}
	}
	return nil
}

func splitList(s string) []string {
	var out []string
	for _, f := range strings.FieldsFunc(s, func(r rune) bool { return r == ',' || r == ' ' }) {
		if f != "" {
			out = append(out, f)
		}
	}
	return out
}

// splitTop splits on commas outside brackets/parens.
func splitTop(s string) []string {
	var out []string
	depth := 0
	start := 0
	for i := 0; i < len(s); i++ {
		switch s[i] {
		case '(', '[', '{':
			depth++
		case ')', ']', '}':
			depth--
		case ',':
			if depth == 0 {
				out = append(out, strings.TrimSpace(s[start:i]))
				start = i + 1
			}
		}
	}
	if strings.TrimSpace(s[start:]) != "" {
		out = append(out, strings.TrimSpace(s[start:]))
	}
	return out
}

// func header:  name            (name may be pkg.F, pkg.(*T).M, pkg.T.M, pkg.F$1)
//               name (p1, p2) returns (r1, r2)
func parseFuncHeader(s, defaultPkg, pos string) (*Contract, error) {
	c := &Contract{Pos: pos}
	s = strings.TrimSpace(s)
	// the name extends to the first space that is at paren depth 0
	depth := 0
	end := len(s)
	for i := 0; i < len(s); i++ {
		if s[i] == '(' {
			// "(*T)" inside a name: part of the name when preceded by '.' or at start
			if i == 0 || s[i-1] == '.' {
				depth++
				continue
			}
			end = i
			break
		}
		if s[i] == ')' && depth > 0 {
			depth--
			continue
		}
		if (s[i] == ' ' || s[i] == '\t') && depth == 0 {
			end = i
			break
		}
	}
	c.Name = strings.TrimSpace(s[:end])
	rest := strings.TrimSpace(s[end:])
	if strings.HasPrefix(rest, "(") {
		j := strings.Index(rest, ")")
		c.Params = splitList(rest[1:j])
		rest = strings.TrimSpace(rest[j+1:])
	}
	if strings.HasPrefix(rest, "returns") {
		rest = strings.TrimSpace(rest[len("returns"):])
		if !strings.HasPrefix(rest, "(") {
			return nil, fmt.Errorf("%s: expected '(' after returns", pos)
		}
		j := strings.Index(rest, ")")
		c.Results = splitList(rest[1:j])
	}
	if defaultPkg != "" && !strings.HasPrefix(c.Name, defaultPkg+".") {
		c.Name = defaultPkg + "." + c.Name
	}
	return c, nil
}

// specfun name(p1 Sort, p2 Sort) Sort [= expr]
func parseSpecFun(s, pos string) (*SpecFun, error) {
	f := &SpecFun{Pos: pos}
	i := strings.Index(s, "(")
	if i < 0 {
		return nil, fmt.Errorf("%s: bad specfun", pos)
	}
	f.Name = strings.TrimSpace(s[:i])
	// find matching paren
	depth := 0
	j := i
	for ; j < len(s); j++ {
		if s[j] == '(' {
			depth++
		} else if s[j] == ')' {
			depth--
			if depth == 0 {
				break
			}
		}
	}
	for _, prm := range splitTopAngle(s[i+1 : j]) {
		n, srt := firstWord(prm)
		ss, err := parseSort(srt, pos)
		if err != nil {
			return nil, fmt.Errorf("%s: %v", pos, err)
		}
		f.Params = append(f.Params, n)
		f.PSorts = append(f.PSorts, ss)
	}
	rest := strings.TrimSpace(s[j+1:])
	body := ""
	if k := strings.Index(rest, "="); k >= 0 && !strings.HasPrefix(rest[k:], "==") {
		body = rest[k+1:]
		rest = strings.TrimSpace(rest[:k])
	}
	ss, err := parseSort(rest, pos)
	if err != nil {
		return nil, fmt.Errorf("%s: %v", pos, err)
	}
	f.Sort = ss
	if strings.TrimSpace(body) != "" {
		e, err := parseSpecExpr(body, pos)
		if err != nil {
			return nil, err
		}
		f.Body = e
	}
	return f, nil
}

func splitTopAngle(s string) []string {
	var out []string
	depth := 0
	start := 0
	for i := 0; i < len(s); i++ {
		switch s[i] {
		case '(', '[', '{', '<':
			depth++
		case ')', ']', '}', '>':
			depth--
		case ',':
			if depth == 0 {
				out = append(out, strings.TrimSpace(s[start:i]))
				start = i + 1
			}
		}
	}
	if strings.TrimSpace(s[start:]) != "" {
		out = append(out, strings.TrimSpace(s[start:]))
	}
	return out
}

// element sorts of Slice<...> sorts mentioned in specifications (declared by the Universe after loading)
var pendingSliceElems []string

func sliceSort(elem string) string { return "Slice_" + mangle(elem) }

func mangle(s string) string {
	var sb strings.Builder
	for _, r := range s {
		if unicode.IsLetter(r) || unicode.IsDigit(r) || r == '_' {
			sb.WriteRune(r)
		} else if r == ' ' || r == '(' || r == ')' {
			sb.WriteByte('_')
		} else {
			sb.WriteByte('_')
		}
	}
	return sb.String()
}
