package main

import (
	"bytes"
	"context"
	"fmt"
	"os"
	"os/exec"
	"path/filepath"
	"sort"
	"strings"
	"sync"
	"time"
)

var smtBuiltins = map[string]bool{
	"and": true, "or": true, "not": true, "=>": true, "=": true, "ite": true, "+": true, "-": true, "*": true, "div": true, "mod": true,
	"<": true, "<=": true, ">": true, ">=": true, "select": true, "store": true, "distinct": true, "true": true, "false": true,
	"forall": true, "exists": true, "let": true, "const-array": true, "strlit": true, "to_int": true, "abs": true,
}

type Axiom struct {
	Index   int
	IsLemma bool
	Name string
	Mode string
	Term *Term
	Syms map[string]bool
	Text string
	LemmaOnly bool
	PatSyms []map[string]bool
	PatLits []map[string]bool // string literals occurring in each pattern: a pattern can only match if they occur in the query
}

type Prelude struct {
	u      *Universe
	gx     *Exec
	axioms []*Axiom
	// translated bodies of defined spec functions
	funBody map[string]*Term
	funSyms map[string]map[string]bool
}

func modeOK(itemMode, queryMode string) bool {
	if itemMode == "" || itemMode == "all" {
		return true
	}
	for _, m := range strings.Split(itemMode, ",") {
		if m == queryMode {
			return true
		}
	}
	return false
}

var thePrelude *Prelude

func buildPrelude(u *Universe) (*Prelude, error) {
	p := &Prelude{u: u, funBody: map[string]*Term{}, funSyms: map[string]map[string]bool{}}
	thePrelude = p
	gx := &Exec{u: u, nfresh: map[string]int{}, initSt: map[string]*Term{}, entryVars: nil, mode: "ctl", assumptions: map[string]bool{}, calleesUsed: map[string]bool{}}
	p.gx = gx
	var err error
	func() {
		defer func() {
			if r := recover(); r != nil {
				if us, ok := r.(unsupported); ok {
					err = fmt.Errorf("prelude: %s", us.msg)
					return
				}
				panic(r)
			}
		}()
		st := &State{vars: nil, st: map[string]*Term{}, pseudo: map[string]*Term{}}
		for _, name := range u.Specs.FunOrder {
			f := u.Specs.Funs[name]
			if f.Body == nil {
				continue
			}
			env := &TrEnv{x: gx, st: st, bound: map[string]*Term{}, lets: map[string]*Term{}}
			env.old = env
			if f.Pkg != "" {
				if pk, ok := u.Pkgs[f.Pkg]; ok {
					env.pkg = pk.Types
				}
			}
			for i, pn := range f.Params {
				env.bound[pn] = V(pn, f.PSorts[i])
			}
			body := gx.trExpr(f.Body, env)
			if body.Sort != f.Sort {
				panic(unsupported{fmt.Sprintf("%s: body of %s has sort %s, declared %s", f.Pos, name, body.Sort, f.Sort)})
			}
			p.funBody[name] = body
			p.funSyms[name] = termSyms(body)
		}
		for li, l := range u.Specs.Lemmas {
			if !l.Axiom && l.Canary != "" {
				continue
			}
			env := &TrEnv{x: gx, st: st, bound: map[string]*Term{}, lets: map[string]*Term{}}
			env.old = env
			if l.Pkg != "" {
				if pk, ok := u.Pkgs[l.Pkg]; ok {
					env.pkg = pk.Types
				}
			}
			t := gx.trBool(l.Expr, env)
			am := l.Mode
			if l.Use != "" {
				am = l.Use
			}
			ax := &Axiom{Index: li, IsLemma: !l.Axiom, Name: l.Name, Mode: am, Term: t, Syms: termSyms(t), Text: l.Text, LemmaOnly: l.LemmaOnly}
			if t.Op == "forall" {
				bound := map[string]bool{}
				for _, b := range t.Bind {
					bound[b.Op] = true
				}
				for _, pat := range t.Pats {
					ps := map[string]bool{}
					for _, e := range pat {
						for sname := range termSyms(e) {
							if !bound[sname] {
								ps[sname] = true
							}
						}
					}
					ax.PatSyms = append(ax.PatSyms, ps)
					pl := map[string]bool{}
					for _, e := range pat {
						termLits(e, pl)
					}
					ax.PatLits = append(ax.PatLits, pl)
				}
			}
			p.axioms = append(p.axioms, ax)
		}
	}()
	return p, err
}

// termSyms: all non-builtin symbols (function and constant names) in a term.
// guardPreds: head symbols of the atoms that guard an axiom of the form forall ..: H1 && ... && Hn ==> C.
func guardPreds(t *Term) []string {
	for t.Op == "forall" {
		t = t.Args[0]
	}
	var out []string
	for t.Op == "=>" && len(t.Args) == 2 {
		var walk func(h *Term)
		walk = func(h *Term) {
			if h.Op == "and" {
				for _, a := range h.Args {
					walk(a)
				}
				return
			}
			if h.Sort == SBool && len(h.Args) > 0 && !smtBuiltins[h.Op] && h.Op != "mention" {
				out = append(out, h.Op)
			}
		}
		walk(t.Args[0])
		t = t.Args[1]
	}
	return out
}

// termLits collects the string literals of a term (patterns included).
func termLits(t *Term, out map[string]bool) {
	if t.Op == "strlit" {
		out[t.Lit] = true
		return
	}
	for _, a := range t.Args {
		termLits(a, out)
	}
	for _, pat := range t.Pats {
		for _, e := range pat {
			termLits(e, out)
		}
	}
}

func termSyms(t *Term) map[string]bool {
	out := map[string]bool{}
	var walk func(t *Term, bound map[string]bool)
	walk = func(t *Term, bound map[string]bool) {
		if t.Op == "strlit" {
			return
		}
		if len(t.Bind) > 0 {
			nb := map[string]bool{}
			for k := range bound {
				nb[k] = true
			}
			for _, b := range t.Bind {
				nb[b.Op] = true
			}
			bound = nb
		}
		if !smtBuiltins[t.Op] && !bound[t.Op] && !isNumeral(t.Op) {
			out[t.Op] = true
		}
		for _, a := range t.Args {
			walk(a, bound)
		}
		for _, pat := range t.Pats {
			for _, e := range pat {
				walk(e, bound)
			}
		}
	}
	walk(t, map[string]bool{})
	return out
}

func isNumeral(s string) bool {
	if s == "" {
		return false
	}
	for _, c := range s {
		if (c < '0' || c > '9') && c != '.' {
			return false
		}
	}
	return true
}

// ---------------------------------------------------------------------------
// query construction

type funSig struct {
	args []string
	res  string
}

func (p *Prelude) buildQuery(o *Obligation, wantModel bool, sizeCap int) string {
	u := p.u
	mode := o.Mode
	pr := &printer{mode: mode, lits: map[string]string{}}
	var body strings.Builder

	hyps := o.Hyps
	if os.Getenv("GOVC_NOFLATTEN") == "" {
		fl := &flattener{p: p, mode: mode}
		hyps = nil
		for _, h := range o.Hyps {
			hyps = append(hyps, fl.flattenHyp(h)...)
		}
	}
	terms := append([]*Term(nil), hyps...)
	goal := o.Goal
	terms = append(terms, goal)

	// extensionality instances for Str equalities in lines mode
	var extra []*Term
	if mode == "lines" {
		extra = linesExtInstances([]*Term{goal})
	}
	// relevance closure over spec functions and axioms
	used := map[string]bool{}
	for _, t := range append(append([]*Term(nil), terms...), extra...) {
		for s := range termSyms(t) {
			used[s] = true
		}
	}
	usedLits := map[string]bool{}
	for _, t := range append(append([]*Term(nil), terms...), extra...) {
		termLits(t, usedLits)
	}
	var axioms []*Axiom
	taken := map[*Axiom]bool{}
	for changed := true; changed; {
		changed = false
		for name, syms := range p.funSyms {
			if used[name] && modeOK(u.Specs.Funs[name].Mode, mode) {
				for s := range syms {
					if !used[s] {
						used[s] = true
						changed = true
					}
				}
				// literals inside the body of a used defined function can be matched by patterns too
				nl := len(usedLits)
				termLits(p.funBody[name], usedLits)
				if len(usedLits) != nl {
					changed = true
				}
			}
		}
		for _, a := range p.axioms {
			if taken[a] || !modeOK(a.Mode, mode) {
				continue
			}
			if a.IsLemma && o.LemmaIndex >= 0 && a.Index >= o.LemmaIndex {
				continue
			}
			if a.LemmaOnly && o.Kind != "lemma" && o.LemmaIndex < 0 {
				continue
			}
			rel := false
			if len(a.PatSyms) > 0 {
				for pi, ps := range a.PatSyms {
					all := true
					for l := range a.PatLits[pi] {
						if !usedLits[l] {
							all = false
							break
						}
					}
					for sname := range ps {
						if !used[sname] && !strings.HasPrefix(sname, "lit!") {
							all = false
							break
						}
					}
					if all {
						rel = true
						break
					}
				}
			} else {
				for sname := range a.Syms {
					if used[sname] {
						if _, isFun := u.Specs.Funs[sname]; isFun || strings.HasPrefix(sname, "g.") || strings.HasPrefix(sname, "s.") || autoRelevant(sname) {
							rel = true
							break
						}
					}
				}
				// an implication guarded by an uninterpreted predicate that occurs nowhere in the query can never fire
				if rel {
					for _, g := range guardPreds(a.Term) {
						if f, ok := u.Specs.Funs[g]; ok && (f.Body == nil || !modeOK(f.Mode, mode)) && !used[g] {
							rel = false
							break
						}
					}
				}
			}
			if rel {
				taken[a] = true
				axioms = append(axioms, a)
				nl := len(usedLits)
				termLits(a.Term, usedLits)
				if len(usedLits) != nl {
					changed = true
				}
				for s := range a.Syms {
					if !used[s] {
						used[s] = true
						changed = true
					}
				}
			}
		}
	}
	// dead-symbol pruning: an axiom all of whose uninterpreted specification functions occur neither in the
	// obligation nor in any other selected axiom only constrains those functions and cannot contribute to a proof;
	// dropping it (always sound) keeps E-matching away from irrelevant instantiations.
	{
		closure := func(syms map[string]bool) map[string]bool {
			out := map[string]bool{}
			var add func(s string)
			add = func(s string) {
				if out[s] {
					return
				}
				out[s] = true
				if f, ok := u.Specs.Funs[s]; ok && f.Body != nil && modeOK(f.Mode, mode) {
					for d := range p.funSyms[s] {
						add(d)
					}
				}
			}
			for s := range syms {
				add(s)
			}
			return out
		}
		isUninterp := func(s string) bool {
			f, ok := u.Specs.Funs[s]
			return ok && (f.Body == nil || !modeOK(f.Mode, mode))
		}
		base := map[string]bool{}
		for _, t := range append(append([]*Term(nil), terms...), extra...) {
			for s := range closure(termSyms(t)) {
				base[s] = true
			}
		}
		axSyms := map[*Axiom]map[string]bool{}
		for _, a := range axioms {
			axSyms[a] = closure(a.Syms)
		}
		for changed := true; changed; {
			changed = false
			count := map[string]int{}
			for _, a := range axioms {
				for s := range axSyms[a] {
					if isUninterp(s) {
						count[s]++
					}
				}
			}
			var keep []*Axiom
			for _, a := range axioms {
				// dead: the axiom has uninterpreted specification functions and none of them occurs elsewhere
				dead, any := true, false
				for s := range axSyms[a] {
					if isUninterp(s) {
						any = true
						if base[s] || count[s] > 1 {
							dead = false
							break
						}
					}
				}
				dead = dead && any
				if dead {
					changed = true
					continue
				}
				keep = append(keep, a)
			}
			axioms = keep
		}
	}
	sort.Slice(axioms, func(i, j int) bool { return axioms[i].Name < axioms[j].Name })
	if mode == "lines" && (used["nl"] || used["seg"]) {
		// the facts about the lines of string literals mention both
		used["nl"], used["seg"] = true, true
	}
	o.LemmasUsed = nil
	for _, a := range axioms {
		if a.IsLemma {
			o.LemmasUsed = append(o.LemmasUsed, a.Name)
		}
	}
	allTerms := append([]*Term(nil), terms...)
	for _, a := range axioms {
		allTerms = append(allTerms, a.Term)
	}

	allTerms = append(allTerms, extra...)

	// declarations --------------------------------------------------------
	var hdr strings.Builder
	hdr.WriteString("; obligation " + o.Name + "\n")
	if o.Text != "" {
		hdr.WriteString("; " + strings.ReplaceAll(o.Text, "\n", " ") + "\n")
	}
	if wantModel {
		hdr.WriteString("(set-option :produce-models true)\n")
	}
	hdr.WriteString("(set-logic ALL)\n")
	if mode != "str" {
		hdr.WriteString("(declare-sort Str 0)\n")
	}
	hdr.WriteString("(declare-sort Ref 0)\n(declare-sort Err 0)\n(declare-sort Any 0)\n(declare-sort GoType 0)\n(declare-sort Fn 0)\n")
	hdr.WriteString("(declare-const null Ref)\n(declare-const err_nil Err)\n(declare-const any_nil Any)\n(declare-const fn_nil Fn)\n")
	hdr.WriteString("(define-fun go_div ((a Int) (b Int)) Int (ite (>= a 0) (div a b) (ite (> b 0) (- (div (- a) b)) (div (- a) (- b)))))\n")
	hdr.WriteString("(define-fun go_mod ((a Int) (b Int)) Int (- a (* b (go_div a b))))\n")
	for _, name := range u.dtOrder {
		hdr.WriteString(pr.sort(u.dtDecl[name]) + "\n")
	}
	known := map[string]bool{"null": true, "err_nil": true, "any_nil": true, "fn_nil": true, "go_div": true, "go_mod": true}
	for _, name := range u.dtOrder {
		known["mk_"+name] = true
		if isSliceSort(name) {
			known["len_"+name] = true
			known["arr_"+name] = true
		}
		if si, ok := u.structs[name]; ok {
			for _, f := range si.Fields {
				known[name+"_"+f] = true
			}
		}
	}
	// collect function signatures and constants
	sigs := map[string]funSig{}
	consts := map[string]string{}
	var collect func(t *Term, bound map[string]bool)
	collect = func(t *Term, bound map[string]bool) {
		if t.Op == "strlit" {
			return
		}
		if len(t.Bind) > 0 {
			nb := map[string]bool{}
			for k := range bound {
				nb[k] = true
			}
			for _, b := range t.Bind {
				nb[b.Op] = true
			}
			bound = nb
		}
		if !smtBuiltins[t.Op] && !bound[t.Op] && !isNumeral(t.Op) && !known[t.Op] {
			if len(t.Args) == 0 {
				if _, isFun := u.Specs.Funs[t.Op]; !isFun {
					consts[t.Op] = t.Sort
				}
			} else if _, isFun := u.Specs.Funs[t.Op]; !isFun {
				if !(mode == "str" && (strNative[t.Op] != "" || t.Op == "s.byte" || t.Op == "bytestr")) {
					var as []string
					for _, a := range t.Args {
						as = append(as, a.Sort)
					}
					sigs[t.Op] = funSig{as, t.Sort}
				}
			}
		}
		for _, a := range t.Args {
			collect(a, bound)
		}
		for _, pat := range t.Pats {
			for _, e := range pat {
				collect(e, bound)
			}
		}
	}
	for _, t := range allTerms {
		collect(t, map[string]bool{})
	}
	for name := range p.funBody {
		if used[name] && modeOK(u.Specs.Funs[name].Mode, mode) {
			b := map[string]bool{}
			for _, pn := range u.Specs.Funs[name].Params {
				b[pn] = true
			}
			collect(p.funBody[name], b)
		}
	}
	// auto-declared functions first (spec function bodies may use them)
	for _, name := range sortedKeys(sigs) {
		sg := sigs[name]
		pn := name
		if strings.HasPrefix(pn, "s.") {
			pn = "s_" + pn[2:]
		}
		var as []string
		for _, a := range sg.args {
			as = append(as, pr.sort(a))
		}
		fmt.Fprintf(&hdr, "(declare-fun %s (%s) %s)\n", pn, strings.Join(as, " "), pr.sort(sg.res))
	}
	// spec functions, in declaration order
	var hdr1 = hdr.String()
	hdr.Reset()
	for pass := 0; pass < 2; pass++ {
		for _, name := range u.Specs.FunOrder {
			f := u.Specs.Funs[name]
			if !used[name] {
				continue
			}
			var ps []string
			for i, pn := range f.Params {
				ps = append(ps, "("+pn+" "+pr.sort(f.PSorts[i])+")")
			}
			b, hasBody := p.funBody[name]
			hasBody = hasBody && modeOK(f.Mode, mode)
			if pass == 0 && hasBody || pass == 1 && !hasBody {
				continue
			}
			if hasBody {
				var sb strings.Builder
				pr.print(&sb, b)
				fmt.Fprintf(&hdr, "(define-fun %s (%s) %s %s)\n", name, strings.Join(ps, " "), pr.sort(f.Sort), sb.String())
			} else if len(f.Params) == 0 {
				fmt.Fprintf(&hdr, "(declare-const %s %s)\n", name, pr.sort(f.Sort))
			} else {
				var as []string
				for _, s := range f.PSorts {
					as = append(as, pr.sort(s))
				}
				fmt.Fprintf(&hdr, "(declare-fun %s (%s) %s)\n", name, strings.Join(as, " "), pr.sort(f.Sort))
			}
		}
		if pass == 0 {
			hdr1 += hdr.String()
			hdr.Reset()
		}
	}
	var constDecl strings.Builder
	for _, name := range sortedKeys(consts) {
		fmt.Fprintf(&constDecl, "(declare-const %s %s)\n", name, pr.sort(consts[name]))
	}
	// type constants are pairwise distinct
	var tcs []string
	for _, name := range sortedKeys(consts) {
		if consts[name] == SType {
			tcs = append(tcs, name)
		}
	}
	if len(tcs) > 1 {
		fmt.Fprintf(&constDecl, "(assert (distinct %s))\n", strings.Join(tcs, " "))
	}
	// named functions are pairwise distinct non-nil function values
	fns := []string{"fn_nil"}
	for _, name := range sortedKeys(consts) {
		if consts[name] == SFn && strings.HasPrefix(name, "fn.") {
			fns = append(fns, name)
		}
	}
	if len(fns) > 1 {
		fmt.Fprintf(&constDecl, "(assert (distinct %s))\n", strings.Join(fns, " "))
	}

	// body ------------------------------------------------------------------
	// nil-ness of slices: the zero value is nil, nil slices are empty
	for _, name := range sortedKeys(sigs) {
		if strings.HasPrefix(name, "isnil_Slice_") {
			srt := strings.TrimPrefix(name, "isnil_")
			var zb strings.Builder
			pr.print(&zb, u.zero(srt))
			fmt.Fprintf(&body, "(assert (%s %s))\n", name, zb.String())
			fmt.Fprintf(&body, "(assert (forall ((s %s)) (! (=> (%s s) (= (len_%s s) 0)) :pattern ((%s s)))))\n", srt, name, srt, name)
			fmt.Fprintf(&body, "(assert (forall ((s %s)) (! (=> (> (len_%s s) 0) (not (%s s))) :pattern ((%s s)))))\n", srt, srt, name, name)
		}
	}
	for _, a := range axioms {
		body.WriteString("(assert (! ")
		pr.print(&body, a.Term)
		fmt.Fprintf(&body, " :named ax_%s))\n", mangle(a.Name))
	}
	for _, h := range hyps {
		body.WriteString("(assert ")
		pr.print(&body, h)
		body.WriteString(")\n")
	}
	for _, h := range extra {
		body.WriteString("(assert ")
		pr.print(&body, h)
		body.WriteString(")\n")
	}
	if sizeCap > 0 {
		// finite-scope search for small models: cap every integer constant
		for _, name := range sortedKeys(consts) {
			if consts[name] == SInt {
				fmt.Fprintf(&body, "(assert (and (<= (- %d) %s) (<= %s %d)))\n", sizeCap, name, name, sizeCap)
			}
		}
	}
	body.WriteString("(assert (not ")
	pr.print(&body, goal)
	body.WriteString("))\n")

	// string literals (uninterpreted modes)
	var lits, litFacts strings.Builder
	if mode != "str" && len(pr.litOrder) > 0 {
		// line literals needed for facts about multi-line literals
		if mode == "lines" {
			for i := 0; i < len(pr.litOrder); i++ {
				for _, seg := range strings.Split(pr.litOrder[i], "\n") {
					pr.litName(seg)
				}
			}
		}
		var names []string
		for _, l := range pr.litOrder {
			n := pr.lits[l]
			names = append(names, n)
			fmt.Fprintf(&lits, "(declare-const %s Str) ; %q\n", n, l)
		}
		if len(names) > 1 {
			fmt.Fprintf(&lits, "(assert (distinct %s))\n", strings.Join(names, " "))
		}
		if mode == "lines" && used["nl"] {
			for _, l := range pr.litOrder {
				segs := strings.Split(l, "\n")
				fmt.Fprintf(&litFacts, "(assert (= (nl %s) %d))\n", pr.lits[l], len(segs))
				for i, sg := range segs {
					fmt.Fprintf(&litFacts, "(assert (= (seg %s %d) %s))\n", pr.lits[l], i, pr.lits[sg])
				}
			}
		}
		if used["s.len"] || sigs["s.len"].res != "" {
			for _, l := range pr.litOrder {
				fmt.Fprintf(&litFacts, "(assert (= (s_len %s) %d))\n", pr.lits[l], len(l))
			}
		}
	}
	var q strings.Builder
	q.WriteString(hdr1)
	q.WriteString(lits.String())
	q.WriteString(constDecl.String())
	q.WriteString(hdr.String())
	q.WriteString(litFacts.String())
	q.WriteString(body.String())
	q.WriteString("(check-sat)\n")
	if wantModel {
		q.WriteString("(get-model)\n")
	}
	return q.String()
}

func autoRelevant(s string) bool {
	return strings.HasPrefix(s, "box_") || strings.HasPrefix(s, "unbox_") || s == "dyntype" || s == "typeName" || s == "errstr" || s == "sprintf_d" || s == "bytestr"
}

// linesExtInstances: for every equality between Str terms in the given formulas add the extensionality instance
//   (nl a = nl b  and  forall i in [0,nl a): seg a i = seg b i)  =>  a = b
func linesExtInstances(terms []*Term) []*Term {
	seen := map[string]bool{}
	var out []*Term
	var walk func(t *Term, bound bool)
	walk = func(t *Term, bound bool) {
		if len(t.Bind) > 0 {
			bound = true
		}
		if t.Op == "=" && len(t.Args) == 2 && t.Args[0].Sort == SStr && !bound {
			a, b := t.Args[0], t.Args[1]
			// two plain reads of heap cells are equal by what the hypotheses say about the state,
			// never line by line: no extensionality instance for them
			plain := func(x *Term) bool { return x.Op == "select" }
			if (a.Op != "strlit" || b.Op != "strlit") && !(plain(a) && plain(b)) {
				key := a.String() + "=" + b.String()
				if !seen[key] && len(seen) < 12 {
					seen[key] = true
					i := V("i?", SInt)
					nl := func(x *Term) *Term { return mk("nl", SInt, x) }
					seg := func(x, k *Term) *Term { return mk("seg", SStr, x, k) }
					out = append(out, Implies(And(Eq(nl(a), nl(b)),
						Forall([]*Term{i}, Implies(And(Le(Num(0), i), Lt(i, nl(a))), Eq(seg(a, i), seg(b, i))))), Eq(a, b)))
				}
			}
		}
		for _, x := range t.Args {
			walk(x, bound)
		}
	}
	for _, t := range terms {
		walk(t, false)
	}
	return out
}

// ---------------------------------------------------------------------------
// solving

type SolveResult struct {
	Status   string // unsat sat unknown timeout error
	Solver   string
	Seconds  float64
	Output   string
	Query    string
	AllTimes map[string]float64
	Detail   map[string]string
}

type solverCfg struct {
	name    string
	cmd     []string
	timeout int
}

func solverConfigs(mode string, timeout int, thorough bool) []solverCfg {
	t := fmt.Sprint(timeout)
	cfgs := []solverCfg{
		{name: "z3-new", cmd: []string{"z3-new", "-T:" + t}},
		{name: "z3", cmd: []string{"z3", "-T:" + t}},
		{name: "z3-new/nomb", cmd: []string{"z3-new", "-T:" + t, "smt.mbqi=false"}},
		{name: "z3/pnq", cmd: []string{"z3", "-T:" + t, "smt.pull_nested_quantifiers=true"}},
		{name: "z3-new/pnq", cmd: []string{"z3-new", "-T:" + t, "smt.pull_nested_quantifiers=true", "smt.mbqi=false"}},
	}
	if mode == "str" || thorough {
		cfgs = append(cfgs, solverCfg{name: "cvc5", cmd: []string{"cvc5", "--tlimit=" + fmt.Sprint(timeout*1000), "--strings-exp", "--produce-models"}})
	}
	for i := range cfgs {
		cfgs[i].timeout = timeout
	}
	return cfgs
}

var workDir string
var qCounter int
var qMu sync.Mutex

func ensureWorkDir() string {
	qMu.Lock()
	defer qMu.Unlock()
	if workDir == "" {
		workDir = filepath.Join("/verif/work", fmt.Sprint(os.Getpid()))
		os.MkdirAll(workDir, 0o755)
	}
	return workDir
}

func cleanupWorkDir() {
	if workDir != "" {
		os.RemoveAll(workDir)
	}
}

// at most this many solver processes run at the same time (the machine has 16 cores)
var solverSem = make(chan struct{}, 16)

func runSolver(ctx context.Context, cfg solverCfg, file string) (string, string, float64) {
	select {
	case solverSem <- struct{}{}:
	case <-ctx.Done():
		return "timeout", "", 0
	}
	defer func() { <-solverSem }()
	start := time.Now()
	pctx, pcancel := context.WithTimeout(ctx, time.Duration(cfg.timeout+2)*time.Second)
	defer pcancel()
	cmd := exec.CommandContext(pctx, cfg.cmd[0], append(cfg.cmd[1:], file)...)
	var out bytes.Buffer
	cmd.Stdout = &out
	cmd.Stderr = &out
	cmd.Run()
	el := time.Since(start).Seconds()
	text := out.String()
	first := ""
	for _, l := range strings.Split(text, "\n") {
		l = strings.TrimSpace(l)
		if l == "" || strings.HasPrefix(l, "WARNING") {
			continue
		}
		first = l
		break
	}
	switch first {
	case "unsat", "sat", "unknown":
		return first, text, el
	case "timeout":
		return "timeout", text, el
	}
	if pctx.Err() != nil {
		return "timeout", text, el
	}
	if strings.Contains(text, "timeout") {
		return "timeout", text, el
	}
	return "error", text, el
}

// solve races the configured solvers on the query.
func solve(query string, mode string, timeout int, thorough bool, expectSat bool) *SolveResult {
	if expectSat {
		// vacuity / reachability checks: only a quick `unsat` is informative
		t := 2
		if thorough {
			t = 10
		}
		return solveWith(query, mode, t, false, true, solverConfigs(mode, t, false)[:2])
	}
	if !thorough {
		// fast path: one solver, short timeout; most obligations discharge here
		r := solveWith(query, mode, 2, false, expectSat, solverConfigs(mode, 2, false)[:1])
		if r.Status == "unsat" || r.Status == "sat" || (expectSat && r.Status == "unknown") {
			return r
		}
	}
	return solveWith(query, mode, timeout, thorough, expectSat, nil)
}

func solveWith(query string, mode string, timeout int, thorough bool, expectSat bool, cfgs []solverCfg) *SolveResult {
	dir := ensureWorkDir()
	qMu.Lock()
	qCounter++
	n := qCounter
	qMu.Unlock()
	file := filepath.Join(dir, fmt.Sprintf("q%d.smt2", n))
	os.WriteFile(file, []byte(query), 0o644)
	defer os.Remove(file)
	if cfgs == nil {
		cfgs = solverConfigs(mode, timeout, thorough)
		if expectSat {
			cfgs = cfgs[:2]
		}
	}
	ctx, cancel := context.WithCancel(context.Background())
	defer cancel()
	type res struct {
		cfg    solverCfg
		status string
		out    string
		t      float64
	}
	ch := make(chan res, len(cfgs))
	for _, c := range cfgs {
		go func(c solverCfg) {
			st, out, t := runSolver(ctx, c, file)
			ch <- res{c, st, out, t}
		}(c)
	}
	r := &SolveResult{Status: "unknown", AllTimes: map[string]float64{}, Detail: map[string]string{}, Query: query}
	got := 0
	var definite *res
	var grace <-chan time.Time
	for got < len(cfgs) {
		var x res
		select {
		case x = <-ch:
		case <-grace:
			// thorough: the other solvers had their time to contradict the first definite answer
			cancel()
			got = len(cfgs)
			continue
		}
		got++
		r.AllTimes[x.cfg.name] = x.t
		r.Detail[x.cfg.name] = x.status
		if x.status == "error" {
			r.Detail[x.cfg.name] = "error: " + firstLines(x.out, 3)
		}
		if x.status == "unsat" || (x.status == "sat" && !strings.HasSuffix(x.cfg.name, "/nomb")) {
			if definite == nil {
				xx := x
				definite = &xx
				if !thorough {
					cancel()
				} else if grace == nil {
					// cross-check window: three times what the first answer took, at least 2 s, at most 15 s
					w := time.Duration(3*xx.t*float64(time.Second)) + 2*time.Second
					if w > 15*time.Second {
						w = 15 * time.Second
					}
					grace = time.After(w)
				}
			} else if thorough && definite.status != x.status && (x.status == "sat" || x.status == "unsat") {
				r.Status = "error"
				r.Output = fmt.Sprintf("solvers disagree: %s says %s, %s says %s", definite.cfg.name, definite.status, x.cfg.name, x.status)
				return r
			}
		}
		if expectSat && (x.status == "sat" || x.status == "unknown") && definite == nil {
			// for vacuity checks "not unsat" suffices
			xx := x
			definite = &xx
			cancel()
		}
	}
	if definite != nil {
		r.Status = definite.status
		r.Solver = definite.cfg.name
		r.Seconds = definite.t
		r.Output = definite.out
		return r
	}
	// no definite answer
	allTimeout := true
	for _, d := range r.Detail {
		if d != "timeout" {
			allTimeout = false
		}
	}
	if allTimeout {
		r.Status = "timeout"
	}
	for _, d := range r.Detail {
		if strings.HasPrefix(d, "error") {
			r.Output += d + "\n"
			if r.Status != "timeout" {
				r.Status = "error"
			}
		}
	}
	return r
}

func firstLines(s string, n int) string {
	ls := strings.Split(s, "\n")
	if len(ls) > n {
		ls = ls[:n]
	}
	return strings.Join(ls, " | ")
}
