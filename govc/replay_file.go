package main

// Witness search for functions whose contract speaks about one file named by a string parameter (getPrevSnapshot,
// addNewSnapshot, updateSnapshot): small concrete files and arguments are run through the REAL function (go test
// -overlay, files under the work directory), and the failed clause is judged on the concrete input, the concrete
// result and the concrete file left behind - closed, i.e. without the hypotheses of the symbolic execution.
// A candidate counts only if every precondition that is closed after substitution holds for it; preconditions about
// ghost state (lock ownership, quiescence) cannot be observed and are listed as not judged.

import (
	"fmt"
	"os"
	"path/filepath"
	"regexp"
	"strconv"
	"strings"
	"time"
)

// foldLits folds concatenations and conditionals over literals after substitution.
func foldLits(t *Term) *Term {
	if len(t.Args) == 0 {
		return t
	}
	args := make([]*Term, len(t.Args))
	changed := false
	for i, a := range t.Args {
		args[i] = foldLits(a)
		if args[i] != a {
			changed = true
		}
	}
	nt := t
	if changed {
		c := *t
		c.Args = args
		nt = &c
	}
	switch nt.Op {
	case "s.cat":
		if len(nt.Args) == 2 && nt.Args[0].Op == "strlit" && nt.Args[1].Op == "strlit" {
			return StrLit(nt.Args[0].Lit + nt.Args[1].Lit)
		}
	case "ite":
		if len(nt.Args) == 3 {
			if isTrue(nt.Args[0]) {
				return nt.Args[1]
			}
			if isFalse(nt.Args[0]) {
				return nt.Args[2]
			}
		}
	}
	return nt
}

// judgeClosed: "violated" = the closed clause is unsatisfiable under the side conditions, "holds" = its negation is.
func judgeClosed(p *Prelude, o *Obligation, closed *Term, side []*Term, seconds int) string {
	oc := &Obligation{Func: o.Func, Name: o.Name + "#closed", Kind: "ensures", Hyps: side, Goal: Not(closed), Mode: o.Mode, LemmaIndex: -1}
	oh := &Obligation{Func: o.Func, Name: o.Name + "#closedneg", Kind: "ensures", Hyps: side, Goal: closed, Mode: o.Mode, LemmaIndex: -1}
	qc, qh := p.buildQuery(oc, false, 0), p.buildQuery(oh, false, 0)
	type ans struct{ which, v string }
	ch := make(chan ans, 2)
	go func() { ch <- ans{"violated", firstLine(runModelSolver(qc, o.Mode, seconds))} }()
	go func() { ch <- ans{"holds", firstLine(runModelSolver(qh, o.Mode, seconds))} }()
	for k := 0; k < 2; k++ {
		a := <-ch
		if a.v == "unsat" {
			return a.which
		}
	}
	return "unknown"
}

func searchFileWitness(p *Prelude, o *Obligation) (map[string]any, bool) {
	sp := o.Replay
	if sp == nil || o.Kind != "ensures" || len(sp.Files) != 1 {
		return nil, false
	}
	rf := sp.Files[0]
	var params []replayItem
	for _, it := range sp.Items {
		switch it.Kind {
		case "param":
			params = append(params, it)
		case "global", "gslicelen":
		default:
			return nil, false
		}
	}
	ent := func(id, body string) string { return "\n" + id + "\n" + body + "\n---\n" }
	T, U := "[T - 1]", "[U - 1]"
	type fileState struct {
		exists bool
		text   string
	}
	files := []fileState{
		{true, ent(T, "a")}, {true, ent(T, "a\n")}, {true, ent(U, "b") + ent(T, "a")}, {true, ent(T, "a") + ent(U, "b")},
		{true, ent(U, "x\n\ny") + ent(T, "a\nb") + ent("[T - 2]", "c")}, {false, ""}, {true, ""}, {true, ent(U, "b")},
		{true, ent(T, "")}, {true, ent(T, "a") + ent(T, "b")}, {true, "\n" + T + "\na\n"}, {true, ent(U, T) + ent(T, "a")},
	}
	pool := func(it replayItem) []replayValue {
		switch it.GoType {
		case "string", "[]byte":
			if strings.Contains(strings.ToLower(it.Name), "id") {
				return []replayValue{{S: T}}
			}
			return []replayValue{{S: "n"}, {S: ""}, {S: "n\n\nm"}, {S: "a"}}
		case "int":
			return []replayValue{{I: 0}, {I: 1}}
		case "bool":
			return []replayValue{{B: false}, {B: true}}
		}
		return nil
	}
	type cand struct {
		vals []replayValue // per param (the path parameter's value is the file path)
		file fileState
		path string
	}
	dir := filepath.Join(ensureWorkDir(), "rw_"+mangle(o.Name))
	os.MkdirAll(dir, 0o755)
	defer os.RemoveAll(dir)
	combos := [][]replayValue{{}}
	for _, it := range params {
		var next [][]replayValue
		vs := pool(it)
		if it.Name == rf.Param {
			vs = []replayValue{{S: ""}} // placeholder
		}
		if len(vs) == 0 {
			return nil, false
		}
		for _, c := range combos {
			for _, v := range vs {
				next = append(next, append(append([]replayValue(nil), c...), v))
			}
		}
		combos = next
	}
	var cands []cand
	for _, f := range files {
		for _, c := range combos {
			path := filepath.Join(dir, fmt.Sprintf("f%d.snap", len(cands)))
			vals := append([]replayValue(nil), c...)
			for j, it := range params {
				if it.Name == rf.Param {
					vals[j] = replayValue{S: path}
				}
			}
			cands = append(cands, cand{vals, f, path})
			if len(cands) >= 200 {
				break
			}
		}
	}
	fi := sp.Fi
	var sb strings.Builder
	fmt.Fprintf(&sb, "package %s\n\nimport (\n\t\"fmt\"\n\t\"os\"\n\t\"testing\"\n)\n\nfunc TestVerifReplay(t *testing.T) {\n", fi.Pkg.Types.Name())
	for ci, c := range cands {
		var args []string
		for j, it := range params {
			args = append(args, c.vals[j].goLit(it.GoType))
		}
		fmt.Fprintf(&sb, "\tfunc() {\n\t\tdefer func() {\n\t\t\tif r := recover(); r != nil {\n\t\t\t\tfmt.Printf(\"REPLAY-CASE %d PANIC %%v\\n\", r)\n\t\t\t}\n\t\t}()\n", ci)
		fmt.Fprintf(&sb, "\t\tos.Remove(%q)\n", c.path)
		if c.file.exists {
			fmt.Fprintf(&sb, "\t\tif err := os.WriteFile(%q, []byte(%q), 0o644); err != nil {\n\t\t\treturn\n\t\t}\n", c.path, c.file.text)
		}
		var rs []string
		for i := range sp.RetTypes {
			rs = append(rs, fmt.Sprintf("r%d", i))
		}
		call := fmt.Sprintf("%s(%s)", fi.Decl.Name.Name, strings.Join(args, ", "))
		if len(rs) > 0 {
			call = strings.Join(rs, ", ") + " := " + call
		}
		fmt.Fprintf(&sb, "\t\t%s\n", call)
		for i, rt := range sp.RetTypes {
			switch rt {
			case "error":
				fmt.Fprintf(&sb, "\t\tfmt.Printf(\"REPLAY-CASE %d OUT %d %%v\\n\", r%d == nil)\n", ci, i, i)
			case "[]byte":
				fmt.Fprintf(&sb, "\t\tfmt.Printf(\"REPLAY-CASE %d OUT %d %%q\\n\", string(r%d))\n", ci, i, i)
			case "string":
				fmt.Fprintf(&sb, "\t\tfmt.Printf(\"REPLAY-CASE %d OUT %d %%q\\n\", r%d)\n", ci, i, i)
			default:
				fmt.Fprintf(&sb, "\t\tfmt.Printf(\"REPLAY-CASE %d OUT %d %%v\\n\", r%d)\n", ci, i, i)
			}
		}
		fmt.Fprintf(&sb, "\t\tb, err := os.ReadFile(%q)\n\t\tfmt.Printf(\"REPLAY-CASE %d FILE %%v %%q\\n\", err == nil, string(b))\n\t\tos.Remove(%q)\n", c.path, ci, c.path)
		sb.WriteString("\t}()\n")
	}
	sb.WriteString("}\n")
	pkgDir := "."
	if len(fi.Pkg.GoFiles) > 0 {
		if rel, err := filepath.Rel(repoDir, filepath.Dir(fi.Pkg.GoFiles[0])); err == nil {
			pkgDir = rel
		}
	}
	tf := filepath.Join(ensureWorkDir(), "replayfile_"+mangle(o.Name)+"_test.go")
	os.WriteFile(tf, []byte(sb.String()), 0o644)
	defer os.Remove(tf)
	testOut, _ := goTestOverlay(tf, pkgDir, "^TestVerifReplay$", 120, nil)
	outRe := regexp.MustCompile(`(?m)^REPLAY-CASE (\d+) OUT (\d+) (.*)$`)
	fileRe := regexp.MustCompile(`(?m)^REPLAY-CASE (\d+) FILE (true|false) (.*)$`)
	outs := map[int]map[int]string{}
	for _, m := range outRe.FindAllStringSubmatch(testOut, -1) {
		ci, _ := strconv.Atoi(m[1])
		ri, _ := strconv.Atoi(m[2])
		if outs[ci] == nil {
			outs[ci] = map[int]string{}
		}
		outs[ci][ri] = m[3]
	}
	after := map[int]fileState{}
	for _, m := range fileRe.FindAllStringSubmatch(testOut, -1) {
		ci, _ := strconv.Atoi(m[1])
		txt, err := strconv.Unquote(m[3])
		if err != nil {
			continue
		}
		after[ci] = fileState{m[2] == "true", txt}
	}
	info := map[string]any{"search": fmt.Sprintf("%d concrete (arguments, file) combinations run on the real code", len(cands))}
	boolT := func(b bool) *Term {
		if b {
			return True
		}
		return False
	}
	start := time.Now()
	tried := 0
	var notJudged []string
	for ci, c := range cands {
		ro, okf := outs[ci], false
		af, okf := after[ci]
		if !okf || len(ro) != len(sp.RetTypes) {
			continue
		}
		if time.Since(start) > 60*time.Second {
			info["search_stopped"] = fmt.Sprintf("budget reached after %d candidates", tried)
			break
		}
		repl := map[string]*Term{}
		// file terms first (they contain the path parameter)
		repl[rf.X0.String()] = boolT(c.file.exists)
		repl[rf.C0.String()] = StrLit(c.file.text)
		repl[rf.X1.String()] = boolT(af.exists)
		repl[rf.C1.String()] = StrLit(af.text)
		desc := map[string]any{}
		for j, it := range params {
			repl[it.Term.String()] = c.vals[j].term(it.GoType)
			desc[it.Name] = valueDesc(c.vals[j], it.GoType)
		}
		desc["file_before"] = map[string]any{"exists": c.file.exists, "content": c.file.text}
		real := map[string]any{"file_after": map[string]any{"exists": af.exists, "content": af.text}}
		var side []*Term
		okBind := true
		for i, rt := range sp.RetTypes {
			key := fmt.Sprintf("result%d", i)
			switch rt {
			case "error":
				if ro[i] == "true" {
					repl[sp.Rets[i].String()] = V("err_nil", SErr)
				} else {
					e := V("err_real", SErr)
					repl[sp.Rets[i].String()] = e
					side = append(side, Not(Eq(e, V("err_nil", SErr))))
				}
				real[key] = map[string]any{"nil": ro[i] == "true"}
			case "string", "[]byte":
				sv, err := strconv.Unquote(ro[i])
				if err != nil {
					okBind = false
				}
				repl[sp.Rets[i].String()] = StrLit(sv)
				real[key] = sv
			case "int":
				n, err := strconv.Atoi(ro[i])
				if err != nil {
					okBind = false
				}
				repl[sp.Rets[i].String()] = replayValue{I: n}.term("int")
				real[key] = n
			case "bool":
				repl[sp.Rets[i].String()] = replayValue{B: ro[i] == "true"}.term("bool")
				real[key] = ro[i] == "true"
			}
		}
		if !okBind {
			continue
		}
		closed := foldLits(substByString(o.Goal, repl))
		if !closedTerm(closed) {
			info["replay_skipped"] = "the clause still mentions symbols of the symbolic execution (ghost or heap state) after substituting arguments, results and the file"
			return info, false
		}
		// preconditions: the observable ones must hold for this candidate
		admissible := true
		notJudged = notJudged[:0]
		for k, r := range sp.Reqs {
			rc := foldLits(substByString(r, repl))
			if !closedTerm(rc) {
				notJudged = append(notJudged, fmt.Sprintf("requires #%d", k+1))
				continue
			}
			if judgeClosed(p, o, rc, nil, 3) != "holds" {
				admissible = false
				break
			}
		}
		if !admissible {
			continue
		}
		tried++
		if judgeClosed(p, o, closed, side, 4) != "violated" {
			continue
		}
		info["inputs"] = desc
		info["real_outputs"] = real
		info["closed_clause"] = "unsatisfiable for these values (judged without the path hypotheses)"
		// a self-contained test of this one case (file in the test's temporary directory), for `govc replay`
		{
			var tb strings.Builder
			fmt.Fprintf(&tb, "package %s\n\nimport (\n\t\"fmt\"\n\t\"os\"\n\t\"path/filepath\"\n\t\"testing\"\n)\n\nfunc TestVerifReplay(t *testing.T) {\n\tpath := filepath.Join(t.TempDir(), \"f.snap\")\n", fi.Pkg.Types.Name())
			if c.file.exists {
				fmt.Fprintf(&tb, "\tif err := os.WriteFile(path, []byte(%q), 0o644); err != nil {\n\t\tt.Fatal(err)\n\t}\n", c.file.text)
			}
			var args, rs []string
			for j, it := range params {
				if it.Name == rf.Param {
					args = append(args, "path")
				} else {
					args = append(args, c.vals[j].goLit(it.GoType))
				}
			}
			for i := range sp.RetTypes {
				rs = append(rs, fmt.Sprintf("r%d", i))
			}
			call := fmt.Sprintf("%s(%s)", fi.Decl.Name.Name, strings.Join(args, ", "))
			if len(rs) > 0 {
				call = strings.Join(rs, ", ") + " := " + call
			}
			fmt.Fprintf(&tb, "\t%s\n", call)
			for i, rt := range sp.RetTypes {
				if rt == "error" {
					fmt.Fprintf(&tb, "\tfmt.Printf(\"REPLAY-OUT result%d nil=%%v\\n\", r%d == nil)\n", i, i)
				} else if rt == "[]byte" {
					fmt.Fprintf(&tb, "\tfmt.Printf(\"REPLAY-OUT result%d %%q\\n\", string(r%d))\n", i, i)
				} else {
					fmt.Fprintf(&tb, "\tfmt.Printf(\"REPLAY-OUT result%d %%#v\\n\", r%d)\n", i, i)
				}
			}
			tb.WriteString("\tb, err := os.ReadFile(path)\n\tfmt.Printf(\"REPLAY-OUT file_after exists=%v %q\\n\", err == nil, string(b))\n}\n")
			info["go_test"] = tb.String()
			info["go_test_pkg"] = pkgDir
		}
		if len(notJudged) > 0 {
			info["preconditions_not_judged"] = strings.Join(notJudged, ", ") + " speak about ghost state (lock ownership, guard map, quiescence): they hold by construction in the sequential harness and cannot be observed"
		}
		info["real_code"] = "found by running the real code on small concrete files and arguments: for this input it leaves the file and returns the values above, which falsify the clause"
		return info, true
	}
	info["replay_skipped"] = fmt.Sprintf("no falsifying input among the %d admissible small (arguments, file) combinations judged", tried)
	return info, false
}
